"""Virtual inlining of helper functions that did not exist on the reference tree.

Rules anchor on the functions of the reference tree (`known_bodies.txt`, the body ids of the pinned tree with the fixes).
A behaviour-preserving refactor that moves a step into a *new* private helper would otherwise make an anchored call site
disappear from the anchored function and the rule fail closed.  Before any engine runs, every synchronous, non-recursive
body whose id is not in the reference list is spliced into each of its call sites (blocks and locals renumbered, arguments
assigned to the parameter locals, `return` turned into an assignment of the destination and a jump to the call's target);
nested new helpers are handled by repeating to a fixed point (bounded).  A helper all of whose call sites were spliced is
then dropped from the program, so who-may-call rules see the real callers; its closures are re-parented to the first
caller.  On the reference tree nothing is new, so this is the identity there."""
import copy
import os
import re

VERIF = os.path.dirname(os.path.dirname(os.path.abspath(__file__)))
KNOWN_FILE = os.path.join(VERIF, "analysis", "known_bodies.txt")
MAX_BLOCKS = 600
MAX_ROUNDS = 4


def load_known():
    """reference body ids -> signature (list of the types of the return place and the parameters) or None"""
    if not os.path.exists(KNOWN_FILE):
        return None
    out = {}
    with open(KNOWN_FILE) as fh:
        for l in fh:
            l = l.rstrip("\n")
            if not l.strip():
                continue
            if "\t" in l:
                bid, sig = l.split("\t", 1)
                out[bid] = sig
            else:
                out[l] = None
    return out


def _sig(b):
    return " | ".join(x.get("ty", "?") for x in b.locals[:b.argc + 1])


def _is_test(bid):
    return "::tests::" in bid or bid.endswith("::tests") or "test_utils" in bid


def _ren_place(pl, L):
    out = [pl[0] + L]
    for e in pl[1:]:
        if isinstance(e, str) and e.startswith("i:"):
            out.append("i:%d" % (int(e[2:]) + L))
        else:
            out.append(e)
    return out


def _ren(o, L, K):
    """deep copy of a statement / terminator with locals shifted by L and block targets by K"""
    if isinstance(o, list):
        return [_ren(x, L, K) for x in o]
    if not isinstance(o, dict):
        return o
    out = {}
    for k, v in o.items():
        if k in ("c", "m", "p", "dest", "resume_arg") and isinstance(v, list) and v and isinstance(v[0], int):
            out[k] = _ren_place(v, L)
        elif k == "d" and isinstance(v, list) and v and isinstance(v[0], int):
            out[k] = _ren_place(v, L)
        elif k == "l" and isinstance(v, int):
            out[k] = v + L
        elif k in ("t", "u", "otherwise", "drop") and isinstance(v, int):
            out[k] = v + K
        elif k == "targets" and isinstance(v, list):
            out[k] = [[a, b + K] for a, b in v]
        elif k == "msg" and isinstance(v, str):
            out[k] = re.sub(r"\b_(\d+)\b", lambda m: "_%d" % (int(m.group(1)) + L), v)
        else:
            out[k] = _ren(v, L, K)
    return out


def _calls_self(body):
    for bl in body.blocks:
        t = bl.get("t") or {}
        if t.get("k") == "call" and body.id in (t.get("rcallee"), t.get("callee")):
            return True
    return False


def _eligible(b):
    return b.kind in ("fn", "method") and not b.is_async and not _is_test(b.id) and len(b.blocks) <= MAX_BLOCKS and not _calls_self(b)


def splice(caller, bb, helper):
    """inline `helper` at the call terminator of block bb of `caller` (mutates caller)"""
    t = caller.blocks[bb]["t"]
    L, K = len(caller.locals), len(caller.blocks)
    caller.locals.extend(copy.deepcopy(helper.locals))
    args = t.get("args", [])
    pre = []
    for i, a in enumerate(args):
        if i + 1 <= helper.argc:
            pre.append({"k": "assign", "d": [L + i + 1], "rv": {"k": "use", "o": copy.deepcopy(a)}, "line": t.get("line"), "inl": helper.id})
    dest, tgt, unw, line = t.get("dest"), t.get("t"), t.get("u"), t.get("line")
    for hb in helper.blocks:
        nb = _ren(hb, L, K)
        nt = nb.get("t") or {}
        if nt.get("k") == "return":
            if dest is not None:
                nb["s"].append({"k": "assign", "d": list(dest), "rv": {"k": "use", "o": {"m": [L]}}, "line": nt.get("line", line), "inl": helper.id})
            if tgt is not None:
                nb["t"] = {"k": "goto", "t": tgt, "line": nt.get("line", line)}
            else:
                nb["t"] = {"k": "unreachable", "line": line}
        elif nt.get("k") == "resume" and unw is not None:
            nb["t"] = {"k": "goto", "t": unw, "line": line}
        caller.blocks.append(nb)
    caller.blocks[bb]["s"].extend(pre)
    caller.blocks[bb]["t"] = {"k": "goto", "t": K, "line": line, "inl": helper.id}
    caller._preds = None
    caller._defs = None
    caller._rpo = None


def inline_new_helpers(prog):
    """returns a report dict; mutates prog.bodies"""
    known = load_known()
    report = {"reference_bodies": len(known) if known is not None else None, "new_helpers": [], "spliced_sites": 0, "dropped": [], "kept": []}
    if known is None or os.environ.get("VERIF_NO_INLINE"):
        return report
    report["renamed"] = ["%s -> judged as %s" % (n, m) for n, m in alias_renamed(prog, known)]

    def base(bid):
        return re.sub(r"#\d+$", "", bid)
    new = [b for bid, b in prog.bodies.items() if base(bid) not in known and b.parent is None and _eligible(b)]
    if not new:
        return report
    newids = {b.id for b in new}
    report["new_helpers"] = sorted(newids)
    remaining = {}
    for rnd in range(MAX_ROUNDS):
        did = 0
        # innermost first: helpers that call no other new helper
        for caller in list(prog.bodies.values()):
            if _is_test(caller.id):
                continue
            for bb in range(len(caller.blocks)):
                t = caller.blocks[bb].get("t") or {}
                if t.get("k") != "call":
                    continue
                tg = t.get("rcallee") or t.get("callee")
                if tg in newids and tg != caller.id and t.get("rkind", "item") == "item":
                    h = prog.bodies[tg]
                    if any(((x.get("t") or {}).get("rcallee") or (x.get("t") or {}).get("callee")) in newids for x in h.blocks if (x.get("t") or {}).get("k") == "call"):
                        continue  # wait until the helper's own new callees were spliced
                    if len(caller.blocks) + len(h.blocks) > 4 * MAX_BLOCKS:
                        continue
                    splice(caller, bb, h)
                    remaining.setdefault(tg, caller.id)
                    report["spliced_sites"] += 1
                    did += 1
        if not did:
            break
    # drop helpers with no remaining direct call sites and no use as a value
    def mentions(o, hid):
        if isinstance(o, dict):
            if o.get("fn") == hid:
                return True
            return any(mentions(v, hid) for v in o.values())
        if isinstance(o, list):
            return any(mentions(v, hid) for v in o)
        return False
    for hid in sorted(newids):
        still = False
        for b in prog.bodies.values():
            if b.id == hid or _is_test(b.id):
                continue
            for bl in b.blocks:
                t = bl.get("t") or {}
                if t.get("k") == "call" and hid in (t.get("rcallee"), t.get("callee")):
                    still = True
                if mentions(bl, hid):
                    still = True  # used as a function value (fn pointer / closure argument)
        if still or hid not in remaining:
            report["kept"].append(hid)
            continue
        first = remaining[hid]
        for c in list(prog.bodies.values()):
            if c.parent == hid:
                c.parent = first
                if c.root == hid:
                    c.root = prog.bodies[first].root or first
        del prog.bodies[hid]
        report["dropped"].append(hid)
    spliced_into = sorted({c for c in remaining.values() if c in prog.bodies} | {b.id for b in prog.bodies.values() if any((bl.get("t") or {}).get("inl") for bl in b.blocks)})
    report["partitioned"] = []
    for cid in spliced_into:
        try:
            if partition(prog.bodies[cid]):
                report["partitioned"].append(cid)
        except Exception as e:  # never let the refinement break the analysis: the unsplit body is still sound
            report.setdefault("partition_errors", []).append("%s: %r" % (cid, e))
    prog._children = None
    prog._callers = None
    return report


# ---------------------------------------------------------------------------------------------------------------------
# Trace partitioning on enum-variant state (only for bodies that received a splice).
#
# A spliced helper that returns `Result`/`Option` merges its paths at its single return block; the caller then tests the
# value (`?`, `match`).  The rules are path-insensitive at merges, so "authenticated" / "not expired" established inside the
# helper would be lost and the error path would appear to flow into the success continuation.  The body is therefore
# re-built as the product of its CFG with a small state: for every live local that is known to hold a given variant
# (assigned from an aggregate, copied, passed through `Try::branch` / `map_err` / `map` / `ok_or` / `from_residual`), that
# variant.  A `switch` on the discriminant of such a local keeps only the consistent edge.  Blocks are cloned per state
# (locals are not renamed; each clone remembers its original index so that origin terms and definitions are unaffected).
# The product is capped; beyond the cap the body is left as it was.

_PRESERVE = ("map_err", "map", "inspect", "inspect_err", "or_else")
_OKLIKE, _ERRLIKE = ("Ok", "Some", "Continue"), ("Err", "None", "Break")


def _whole_local(op):
    if isinstance(op, dict):
        for k in ("m", "c"):
            v = op.get(k)
            if isinstance(v, list) and len(v) == 1 and isinstance(v[0], int):
                return v[0]
    return None


def _after_stmts(block, st):
    st = dict(st)
    for s in block["s"]:
        k = s.get("k")
        if k == "dead":
            st.pop(s["l"], None)
        elif k == "assign":
            d = s["d"]
            if len(d) != 1:
                continue
            x, rv = d[0], s["rv"]
            if rv.get("k") == "agg" and rv.get("variant") and rv.get("adt"):
                st[x] = rv["variant"]
            elif rv.get("k") == "use" and _whole_local(rv.get("o")) is not None and _whole_local(rv.get("o")) in st:
                st[x] = st[_whole_local(rv["o"])]
            elif rv.get("k") == "use" and isinstance(rv.get("o"), dict) and isinstance(rv["o"].get("k"), dict) and rv["o"]["k"].get("ty") == "bool" and ("bool" in rv["o"]["k"] or "int" in rv["o"]["k"]):
                st[x] = "#true" if rv["o"]["k"].get("bool", rv["o"]["k"].get("int")) else "#false"  # a helper answering `true` / `false` on different paths
            else:
                st.pop(x, None)
    return st


def _after_call(t, st):
    st = dict(st)
    dest = t.get("dest")
    if not (isinstance(dest, list) and len(dest) == 1):
        return st
    x = dest[0]
    tg = t.get("rcallee") or t.get("callee") or ""
    last = tg.split("::")[-1]
    a0 = _whole_local(t["args"][0]) if t.get("args") else None
    v = st.get(a0) if a0 is not None else None
    st.pop(x, None)
    if tg.endswith("Try>::branch") and v:
        st[x] = "Continue" if v in _OKLIKE else "Break"
    elif last in _PRESERVE and v and ("result::Result" in tg or "option::Option" in tg):
        st[x] = v
    elif last in ("ok_or", "ok_or_else") and v and "option::Option" in tg:
        st[x] = "Ok" if v == "Some" else "Err"
    elif last in ("ok", "err") and v and "result::Result::<T, E>" in tg:
        st[x] = "Some" if (v == "Ok") == (last == "ok") else "None"
    elif last == "from_residual":
        if "std::result::Result" in tg.split(" as ")[0]:
            st[x] = "Err"
        elif "std::option::Option" in tg.split(" as ")[0]:
            st[x] = "None"
    return st


def partition(body, cap=None):
    nb = len(body.blocks)
    cap = cap or max(6 * nb, 600)
    # discriminant temporaries: local -> (subject local, {value: variant name})
    discr = {}
    for bl in body.blocks:
        for s in bl["s"]:
            if s.get("k") == "assign" and len(s["d"]) == 1 and s["rv"].get("k") == "discr":
                p = s["rv"].get("p")
                if isinstance(p, list) and len(p) == 1:
                    discr[s["d"][0]] = (p[0], {v: n for v, n in s["rv"].get("variants", [])})
    # only locals whose variant is tested later matter: discriminated locals and what flows into them
    interesting = {v[0] for v in discr.values()}
    for bl in body.blocks:
        t_ = bl.get("t") or {}
        if t_.get("k") == "switch" and t_.get("dty") == "bool" and _whole_local(t_.get("d")) is not None:
            interesting.add(_whole_local(t_["d"]))
    changed = True
    while changed:
        changed = False
        for bl in body.blocks:
            for s in bl["s"]:
                if s.get("k") == "assign" and len(s["d"]) == 1 and s["d"][0] in interesting and s["rv"].get("k") == "use":
                    y = _whole_local(s["rv"].get("o"))
                    if y is not None and y not in interesting:
                        interesting.add(y)
                        changed = True
            t = bl.get("t") or {}
            if t.get("k") == "call" and isinstance(t.get("dest"), list) and len(t["dest"]) == 1 and t["dest"][0] in interesting and t.get("args"):
                y = _whole_local(t["args"][0])
                if y is not None and y not in interesting:
                    interesting.add(y)
                    changed = True

    # backward liveness of the interesting locals: a variant recorded for a local that is overwritten before it is read
    # again (e.g. the helper's result of the previous loop iteration) must not split the paths
    def uses_defs(bl):
        use, dfn = set(), set()

        def note_use(o):
            if isinstance(o, dict):
                for k_, v in o.items():
                    if k_ in ("c", "m", "p") and isinstance(v, list) and v and isinstance(v[0], int):
                        if v[0] not in dfn:
                            use.add(v[0])
                    else:
                        note_use(v)
            elif isinstance(o, list):
                for v in o:
                    note_use(v)
        for s_ in bl["s"]:
            if s_.get("k") == "assign":
                note_use(s_["rv"])
                d = s_["d"]
                if len(d) == 1:
                    dfn.add(d[0])
                elif d[0] not in dfn:
                    use.add(d[0])
        t_ = bl.get("t") or {}
        if t_.get("k") != "drop":  # dropping a value does not look at its variant
            note_use({k_: v for k_, v in t_.items() if k_ not in ("dest",)})
        d = t_.get("dest")
        if isinstance(d, list) and d:
            if len(d) == 1:
                dfn.add(d[0])  # (on the unwind edge the old value would survive; cleanup paths do not test variants)
            elif d[0] not in dfn:
                use.add(d[0])
        return use & interesting, dfn & interesting
    ud = [uses_defs(bl) for bl in body.blocks]
    succs = []
    for bl in body.blocks:
        t_ = bl.get("t") or {}
        ss = [t_.get(f) for f in ("t", "u", "drop", "otherwise") if isinstance(t_.get(f), int)]
        ss += [b_ for _, b_ in t_.get("targets", [])] if t_.get("k") == "switch" else []
        succs.append(ss)
    live_in = [set() for _ in body.blocks]
    changed = True
    while changed:
        changed = False
        for i in range(len(body.blocks) - 1, -1, -1):
            out = set()
            for s_ in succs[i]:
                out |= live_in[s_]
            new = ud[i][0] | (out - ud[i][1])
            if new != live_in[i]:
                live_in[i] = new
                changed = True

    def restrict(st, at):
        return {k: v for k, v in st.items() if k in interesting and k in live_in[at]}
    start = (0, ())
    ids = {start: 0}
    order = [start]
    out_edges = {}
    work = [start]
    while work:
        node = work.pop()
        b, stt = node
        bl = body.blocks[b]
        st = _after_stmts(bl, dict(stt))
        t = bl.get("t") or {"k": "unreachable"}
        k = t["k"]
        edges = []  # (label, succ block, state)
        if k == "goto":
            edges.append(("t", t["t"], st))
        elif k in ("drop", "assert", "yield"):
            if t.get("t") is not None:
                edges.append(("t", t["t"], st))
            if t.get("u") is not None:
                edges.append(("u", t["u"], st))
            if t.get("drop") is not None:
                edges.append(("drop", t["drop"], st))
        elif k == "call":
            if t.get("t") is not None:
                edges.append(("t", t["t"], _after_call(t, st)))
            if t.get("u") is not None:
                edges.append(("u", t["u"], st))
        elif k == "switch" and t.get("dty") == "bool" and st.get(_whole_local(t.get("d"))) in ("#true", "#false"):
            val = 1 if st[_whole_local(t["d"])] == "#true" else 0
            hit = [tgt for v, tgt in t["targets"] if v == val]
            if hit:
                edges.append((("sw", val), hit[0], st))
            else:
                edges.append((("sw", "otherwise"), t["otherwise"], st))
        elif k == "switch":
            dl = _whole_local(t.get("d"))
            subj = discr.get(dl)
            known = st.get(subj[0]) if subj else None
            explicit = []
            for v, tgt in t["targets"]:
                name = subj[1].get(v) if subj else None
                explicit.append(name)
                if known and name and name != known:
                    continue
                st2 = dict(st)
                if subj and name:
                    st2[subj[0]] = name
                edges.append((("sw", v), tgt, st2))
            if not (known and known in explicit):
                edges.append((("sw", "otherwise"), t["otherwise"], st))
        for lab, sb, s2 in edges:
            key = (sb, tuple(sorted(restrict(s2, sb).items())))
            if key not in ids:
                ids[key] = len(order)
                order.append(key)
                work.append(key)
                if len(order) > cap:
                    return False
            out_edges.setdefault(node, {})[lab] = ids[key]
    if os.environ.get("VERIF_DEBUG_PARTITION"):
        want = int(os.environ["VERIF_DEBUG_PARTITION"])
        for k in order:
            if k[0] == want:
                print("PART", body.id, k)
    # merge back the clones that cannot be told apart (same original block, same successors up to merging): only the
    # blocks between a path split and the test that prunes an edge stay duplicated (Moore-style partition refinement)
    cls = {node: node[0] for node in order}
    while True:
        sig = {}
        for node in order:
            oe = out_edges.get(node, {})
            sig[node] = (cls[node], tuple(sorted((repr(lab), cls[order[tid]]) for lab, tid in oe.items())))
        ids2 = {}
        newcls = {}
        for node in order:
            newcls[node] = ids2.setdefault(sig[node], len(ids2))
        if len(ids2) == len(set(cls.values())):
            cls = newcls
            break
        cls = newcls
    reps = {}
    for node in order:
        reps.setdefault(cls[node], node)
    if len(reps) == nb and all(cls[n] == cls[reps[cls[n]]] for n in order) and len({n[0] for n in reps.values()}) == nb and not any(
            len(out_edges.get(n, {})) < len(body.succ(n[0], unwind=True)) for n in reps.values()):
        return False  # everything merged back and nothing was pruned: the body is unchanged
    # number the merged blocks: entry first, then in order of first appearance
    cid = {}
    for node in order:
        if cls[node] not in cid:
            cid[cls[node]] = len(cid)
    dead_end = len(cid)
    new_blocks = [None] * len(cid)
    for c, node in reps.items():
        b, _ = node
        bl = body.blocks[b]
        nbk = {"s": bl["s"], "orig": bl.get("orig", b)}
        if bl.get("cleanup"):
            nbk["cleanup"] = True
        t = bl.get("t")
        if t:
            t2 = dict(t)
            oe = {lab: cid[cls[order[tid]]] for lab, tid in out_edges.get(node, {}).items()}
            for fld in ("t", "u", "drop"):
                if t.get(fld) is not None:
                    t2[fld] = oe.get(fld, dead_end) if isinstance(t.get(fld), int) else t.get(fld)
            if t["k"] == "switch":
                t2["targets"] = [[v, oe[("sw", v)]] for v, _ in t["targets"] if ("sw", v) in oe]
                t2["otherwise"] = oe.get(("sw", "otherwise"), dead_end)
            nbk["t"] = t2
        new_blocks[cid[c]] = nbk
    new_blocks.append({"s": [], "t": {"k": "unreachable", "line": body.span}, "orig": -1})
    body.blocks = new_blocks
    body._preds = None
    body._defs = None
    body._rpo = None
    return True


def freeze(prog):
    rows = {}
    for bid, b in prog.bodies.items():
        rows.setdefault(re.sub(r"#\d+$", "", bid), _sig(b))
    with open(KNOWN_FILE, "w") as fh:
        for k in sorted(rows):
            fh.write("%s\t%s\n" % (k, rows[k]))
    return len(rows)


def alias_renamed(prog, known):
    """a reference function that is gone while exactly one new function with the same owner (module / impl) and the same
    signature appeared is taken to be that function renamed: the new body is filed under the old id (and every call target,
    function item and nested closure id is rewritten), so the anchored rules keep judging it"""
    def base(bid):
        return re.sub(r"#\d+$", "", bid)
    cur = {base(bid) for bid in prog.bodies}
    missing = [k for k in known if k not in cur and "{closure" not in k and "{constant" not in k and not _is_test(k) and known[k]]
    if not missing:
        return []
    fresh = [b for b in prog.bodies.values() if base(b.id) not in known and b.parent is None and not _is_test(b.id) and b.kind in ("fn", "method")]
    pairs = []
    used = set()
    for m in sorted(missing):
        owner = m.rsplit("::", 1)[0]
        cands = [b for b in fresh if b.id.rsplit("::", 1)[0] == owner and _sig(b) == known[m] and b.id not in used]
        others = [k for k in missing if k != m and k.rsplit("::", 1)[0] == owner and known[k] == known[m]]
        if len(cands) == 1 and not others:
            pairs.append((cands[0].id, m))
            used.add(cands[0].id)
    if not pairs:
        return []
    ren = dict(pairs)

    def fix_name(x):
        if not isinstance(x, str):
            return x
        for n, m in ren.items():
            if x == n:
                return m
            if x.startswith(n + "::{"):
                return m + x[len(n):]
        return x

    def walk(o):
        if isinstance(o, dict):
            for k_, v in list(o.items()):
                if k_ in ("callee", "rcallee", "fn", "def") and isinstance(v, str):
                    o[k_] = fix_name(v)
                else:
                    walk(v)
        elif isinstance(o, list):
            for v in o:
                walk(v)
    for b in list(prog.bodies.values()):
        for bl in b.blocks:
            walk(bl)
    for b in list(prog.bodies.values()):
        nid = fix_name(b.id)
        if b.parent:
            b.parent = fix_name(b.parent)
        if b.root:
            b.root = fix_name(b.root)
        if nid != b.id:
            del prog.bodies[b.id]
            b.id = nid
            prog.bodies[nid] = b
    prog._children = None
    prog._callers = None
    return pairs


if __name__ == "__main__":
    from .facts import Program
    p = Program.load()
    print("reference bodies written:", freeze(p))
