"""CY: sibling agreement inside teos_common::cryptography — the structural part of C17.

encrypt/decrypt must build the *same* cipher from the *same* function of the secret and use the same nonce; what is
encrypted is the consensus serialisation of the transaction and what is returned is the strict consensus deserialisation of
the authenticated plaintext (an AEAD failure is an error, never a value).  sign / recover_pk forward their arguments
unchanged to the Lightning message-signing functions and verify is `recover_pk(msg, sig) == pk` with errors mapped to false.
Breaking any of these breaks the round-trip / tamper-rejection behaviour; the values computed by the primitives are not decided."""
from .facts import call_names, call_target
from .framework import RuleResult
from . import origin as og
from .rulekit import arg_origin, shortfn, sites_containing

C = "teos_common::cryptography::"


def _canon(term, body_id):
    """strip sites / ret wrappers and rename this body's params to positional roles so two functions can be compared"""
    t = og.strip(term)

    def ren(x):
        if not isinstance(x, tuple) or not x:
            return x
        if x[0] == "param" and x[1] == body_id:
            return ("param", "_", x[2])
        return tuple(ren(y) if isinstance(y, tuple) else y for y in x)
    return ren(t)


def _params(term):
    return {x[2] for x in og.walk(term) if isinstance(x, tuple) and x and x[0] == "param"}


def _peel(term, *names):
    """drop transparent wrappers (as_ref / deref / borrow) around a term"""
    t = og.strip(term)
    while isinstance(t, tuple) and t and t[0] == "call" and t[1].split("::")[-1] in names and t[2]:
        t = t[2][0]
    return t


def rule_CY(ctx, tier):
    rr = RuleResult("CY", "cryptography siblings agree: same key derivation, nonce and cipher in encrypt/decrypt; strict (de)serialisation; verify = recover == pk")
    P = ctx.prog
    e, d = P.bodies.get(C + "encrypt"), P.bodies.get(C + "decrypt")
    if not e or not d:
        rr.anchor_missing("cryptography::encrypt/decrypt")
        return rr
    es = [bb for bb, t in e.calls() if (call_target(t) or "").endswith("aead::Aead>::encrypt")]
    ds = [bb for bb, t in d.calls() if (call_target(t) or "").endswith("aead::Aead>::decrypt")]
    if len(es) != 1 or len(ds) != 1:
        rr.fail("aead-sites", "expected exactly one AEAD encrypt call in `encrypt` and one AEAD decrypt call in `decrypt` (found %d / %d): a second attempt with other key material makes decryption tolerant" % (len(es), len(ds)), where=d.span)
        return rr
    ek, dk = _canon(arg_origin(ctx, e, es[0], 0, depth=4), e.id), _canon(arg_origin(ctx, d, ds[0], 0, depth=4), d.id)
    en, dn = _canon(arg_origin(ctx, e, es[0], 1, depth=4), e.id), _canon(arg_origin(ctx, d, ds[0], 1, depth=4), d.id)
    if ek == dk and og.has_top(ek) is False:
        rr.ok("encrypt and decrypt build the cipher from the same term", sample={"rule": "CY", "cipher": og.show(ek)[:200]})
    else:
        rr.fail("cipher-mismatch", "encrypt builds its cipher from `%s` but decrypt from `%s`: what one side encrypts the other cannot decrypt" % (og.show(ek)[:120], og.show(dk)[:120]), where=d.span)
    if _params(ek) == {2} and any(c.endswith("Hash::hash") for c in og.calls_in(ek)) and any("sha256" in c for c in og.calls_in(ek)) and any("ChaChaPoly1305" in c and c.endswith("::new") for c in og.calls_in(ek)):
        rr.ok("key = hash of the secret (second parameter) only, cipher ChaCha20-Poly1305")
    else:
        rr.fail("key-derivation", "the cipher key is `%s`; expected ChaCha20Poly1305::new(Key::from_slice(sha256(secret)))" % og.show(ek)[:160], where=e.span)
    if en == dn and not _params(en):
        rr.ok("same constant nonce on both sides (%s)" % og.show(en)[-40:])
    else:
        rr.fail("nonce-mismatch", "encrypt uses nonce `%s`, decrypt `%s`" % (og.show(en)[:80], og.show(dn)[:80]), where=d.span)
    # plaintext / ciphertext operands
    pt = _peel(arg_origin(ctx, e, es[0], 2, depth=4), "as_ref", "deref", "as_slice", "borrow")
    if isinstance(pt, tuple) and pt[0] == "call" and pt[1] == "bitcoin::consensus::serialize" and _canon(pt[2][0], e.id) == ("param", "_", 1):
        rr.ok("encrypt: plaintext = consensus::serialize(message)")
    else:
        rr.fail("plaintext", "encrypt encrypts `%s`, not the consensus serialisation of the message" % og.show(pt)[:120], where=e.span)
    eret = og.strip(ctx.og.local(e, 0))
    if isinstance(eret, tuple) and eret[0] == "call" and eret[1].endswith("aead::Aead>::encrypt"):
        rr.ok("encrypt returns the AEAD output unchanged")
    else:
        rr.fail("ciphertext-post-processed", "encrypt returns `%s`, not the AEAD output itself" % og.show(eret)[:120], where=e.span)
    ct = _peel(arg_origin(ctx, d, ds[0], 2, depth=4), "as_ref", "deref", "as_slice", "borrow")
    if _canon(ct, d.id) == ("param", "_", 1):
        rr.ok("decrypt: ciphertext = the blob given, whole")
    else:
        rr.fail("ciphertext", "decrypt feeds `%s` to the AEAD, not the whole blob" % og.show(ct)[:120], where=d.span)
    # every value decrypt can return as Ok is the strict deserialisation of the authenticated plaintext
    ret = og.strip(ctx.og.local(d, 0))
    alts = list(ret[1]) if isinstance(ret, tuple) and ret and ret[0] == "phi" else [ret]
    okc = 0
    for a in alts:
        a = og.strip(a)
        if isinstance(a, tuple) and a[0] == "agg" and a[1].endswith("Result") and a[2] == "Err":
            # a failure must come from the primitives: the AEAD's own error (or, below, the deserialiser's); a rejection decided
            # by decrypt itself refuses blobs that encrypt can produce (e.g. a minimum size taken from relay policy)
            if any(isinstance(x, tuple) and x and x[0] == "proj" and isinstance(x[1], tuple) and x[1] and x[1][0] == "call" and x[1][1].endswith("aead::Aead>::decrypt") and "v:Err" in x[2] for x in og.walk(a)):
                continue
            rr.fail("decrypt-extra-rejection", "decrypt can fail with `%s`, an error it builds itself rather than the AEAD's or the deserialiser's: some output of encrypt() no longer decrypts under its own id" % og.show(a)[:120], where=d.span)
            continue
        inner = a
        while isinstance(inner, tuple) and inner and inner[0] == "call" and inner[1].split("::")[-1] in ("map_err", "or_else") and inner[2]:
            inner = og.strip(inner[2][0])
        # `aead_result.map_err(..).and_then(|bytes| deserialize(&bytes).map_err(..))`: the closure's result with its
        # parameter bound to the Ok payload of the receiver
        if isinstance(inner, tuple) and inner and inner[0] == "call" and inner[1].split("::")[-1] == "and_then" and len(inner[2]) == 2 \
                and isinstance(inner[2][1], tuple) and inner[2][1][0] == "closure" and inner[2][1][1] in P.bodies:
            recv = og.strip(inner[2][0])
            while isinstance(recv, tuple) and recv and recv[0] == "call" and recv[1].split("::")[-1] in ("map_err",) and recv[2]:
                recv = og.strip(recv[2][0])
            cid = inner[2][1][1]
            cret = og.strip(ctx.og.local(P.bodies[cid], 0))
            payload = ("proj", recv, ("v:Ok", "f:0"))

            def bind(x):
                if not isinstance(x, tuple) or not x:
                    return x
                if x[0] == "param" and x[1] == cid and x[2] == 2:
                    return payload
                return tuple(bind(y) if isinstance(y, tuple) else y for y in x)
            inner = bind(cret)
            while isinstance(inner, tuple) and inner and inner[0] == "call" and inner[1].split("::")[-1] in ("map_err", "or_else") and inner[2]:
                inner = og.strip(inner[2][0])
        good = False
        if isinstance(inner, tuple) and inner and inner[0] == "call" and inner[1] == "bitcoin::consensus::deserialize" and inner[2]:
            src = _peel(inner[2][0], "as_ref", "deref", "as_slice", "borrow")
            if isinstance(src, tuple) and src[0] == "proj" and tuple(x for x in src[2] if x != "*")[:2] == ("v:Ok", "f:0") and isinstance(src[1], tuple) and src[1][0] == "call" and src[1][1].endswith("aead::Aead>::decrypt"):
                good = True
        if good:
            okc += 1
        else:
            rr.fail("decrypt-result", "decrypt can return `%s`: not `consensus::deserialize` (strict: rejects trailing bytes) of the authenticated plaintext" % og.show(a)[:160], where=d.span)
    if okc:
        rr.ok("decrypt: Ok only as consensus::deserialize(AEAD plaintext); AEAD failure is an Err", sample={"rule": "CY", "decrypt returns": og.show(ret)[:200]})
    else:
        rr.fail("decrypt-result:none", "no alternative of decrypt's result is the deserialised plaintext", where=d.span)
    # signatures
    for fn, callee, n in (("sign", "lightning::util::message_signing::sign", 2), ("recover_pk", "lightning::util::message_signing::recover_pk", 2)):
        b = P.bodies.get(C + fn)
        if b is None:
            rr.anchor_missing(C + fn)
            continue
        r = _canon(ctx.og.local(b, 0), b.id)
        want = ("call", callee, tuple(("param", "_", i + 1) for i in range(n)))
        if r == want:
            rr.ok("%s forwards (msg, key/sig) unchanged to %s" % (fn, shortfn(callee)))
        else:
            rr.fail("forward:%s" % fn, "`cryptography::%s` is `%s`, not `%s(msg, ..)` on its own arguments" % (fn, og.show(r)[:140], shortfn(callee)), where=b.span)
    v = P.bodies.get(C + "verify")
    if v is None:
        rr.anchor_missing(C + "verify")
        return rr
    vr = og.strip(ctx.og.local(v, 0))
    shape = isinstance(vr, tuple) and vr[0] == "call" and vr[1].split("::")[-1] == "map_or_else" and _canon(vr[2][0], v.id) == ("call", "lightning::util::message_signing::recover_pk", (("param", "_", 1), ("param", "_", 2)))
    kids = sorted(P.children(v.id))
    cl_ok = False
    if shape and len(kids) == 2:
        r0 = og.strip(ctx.og.local(P.bodies[kids[0]], 0))
        r1 = og.strip(ctx.og.local(P.bodies[kids[1]], 0))
        is_false = isinstance(r0, tuple) and r0[0] == "const" and r0[1] is False
        is_eq = isinstance(r1, tuple) and r1[0] == "call" and r1[1].endswith("PartialEq>::eq") and {2} <= _params(r1) and ("param", v.id, 3) in list(og.walk(r1))
        cl_ok = is_false and is_eq
    if shape and cl_ok:
        rr.ok("verify = recover_pk(msg, sig).map_or_else(|_| false, |k| k == *pk)", sample={"rule": "CY", "verify": og.show(vr)[:160]})
    else:
        rr.fail("verify-shape", "`cryptography::verify` is `%s`; expected the recovered key of (msg, sig) compared with pk and every error mapped to false" % og.show(vr)[:160], where=v.span)
    # users of verify/recover on the two sides take the id from the recovered key (AU1 / PL4 own those); here: who calls decrypt
    callers = sorted({shortfn(b.id) for b in P.bodies.values() for bb, t in b.calls() if call_target(t) == C + "decrypt" and "::tests::" not in b.id})
    if callers:
        rr.ok("decrypt is used by %s" % callers, nontrivial=False)
    rr.require_floor(9, "CY instances")
    return rr
