"""Thread roots and lock-class tables (DESIGN 2.2 E1/E4): frozen tables, re-derived and cross-checked on every run."""
from .facts import call_names

# lock classes (the T of Mutex<T>) confirmed by reading; short name -> class
CLASSES = {
    "DBM": "teos::dbm::DBM",
    "users": "std::collections::HashMap<teos_common::UserId, teos::gatekeeper::UserInfo>",
    "locator_cache": "teos::tx_index::TxIndex<teos_common::appointment::Locator, bitcoin::Transaction>",
    "tx_index": "teos::tx_index::TxIndex<bitcoin::Txid, bitcoin::BlockHash>",
    "carrier": "teos::carrier::Carrier",
    "reorged": "std::collections::HashSet<teos::extended_appointment::UUID>",
    "reachable_flag": "bool",
    "rpc_client": "lightning_block_sync::rpc::RpcClient",
    "wt_client": "watchtower_plugin::wt_client::WTClient",
    "retrier_pending": "std::collections::HashSet<teos_common::appointment::Locator>",
    "retrier_status": "watchtower_plugin::retrier::RetrierStatus",
}
SHORT = {v: k for k, v in CLASSES.items()}
# classes with one mutex per object instance (one per Retrier): nesting of the same class needs instance reasoning
PER_INSTANCE = {"retrier_pending", "retrier_status"}

POLL_BEST_TIP = "teos::chain_monitor::ChainMonitor::<'a, P, C, L>::poll_best_tip"
MONITOR_CHAIN = POLL_BEST_TIP.replace("poll_best_tip", "monitor_chain")
MANAGE_RETRY = "watchtower_plugin::retrier::RetryManager::manage_retry"
RETRIER_START = "watchtower_plugin::retrier::Retrier::start"
PLUGIN_MAIN = "watchtower_client::main"
TEOSD_MAIN = "teosd::main"


def short(cls):
    return SHORT.get(cls, cls)


def tower_api_roots(prog):
    out = []
    for b in prog.bodies.values():
        if b.impl_trait and b.impl_trait.endswith(("::PublicTowerServices", "::PrivateTowerServices")) and b.kind == "method":
            out.append(b.id)
    return sorted(out)


def public_api_roots(prog):
    return sorted(b.id for b in prog.bodies.values()
                  if b.impl_trait and b.impl_trait.endswith("::PublicTowerServices") and b.kind == "method")


def plugin_rpc_roots(prog):
    """functions registered with cln_plugin::Builder::{rpcmethod, hook, subscribe}"""
    out = {}
    for bid in prog.family(PLUGIN_MAIN):
        b = prog.bodies[bid]
        for bb, t in b.calls():
            tgt = t.get("callee") or ""
            if "cln_plugin::Builder" in tgt and tgt.endswith(("::rpcmethod", "::hook", "::subscribe")):
                for a in t["args"]:
                    k = a.get("k")
                    if k and "fn" in k:
                        out[k["fn"]] = tgt.split("::")[-1]
    return out


def thread_roots(prog, cg):
    """kind -> list of root body ids"""
    roots = {
        "API": tower_api_roots(prog),
        "CHAIN": [x for x in (POLL_BEST_TIP, MONITOR_CHAIN) if x in prog.bodies],  # the polling loop of main and the poll it drives (also called once at bootstrap)
        "RPC": sorted(plugin_rpc_roots(prog)),
        "MANAGER": [MANAGE_RETRY] if MANAGE_RETRY in prog.bodies else [],
        "RETRIER": list(cg.spawned.get(RETRIER_START, [])),
    }
    return roots


# may two threads of these kinds run at the same time?  (multi-thread tokio runtime; the chain monitor
# and the retry manager are single sequential tasks)
def concurrent(k1, k2):
    tower = {"API", "CHAIN"}
    plugin = {"RPC", "MANAGER", "RETRIER"}
    if (k1 in tower) != (k2 in tower):
        return False
    if k1 == k2:
        return k1 in ("API", "RPC", "RETRIER")
    return True


def root_kinds(prog, cg):
    """body id -> set of root kinds it is reachable from"""
    roots = thread_roots(prog, cg)
    kinds = {}
    for k, rs in roots.items():
        for b in cg.reach(rs):
            kinds.setdefault(b, set()).add(k)
    return roots, kinds
