"""Debug helper: python3 -m analysis.show <substring of body id> [--all]  -> readable MIR."""
import sys

from .facts import Program, call_target


def place(p):
    s = "_%d" % p[0]
    for e in p[1:]:
        if e == "*":
            s = "(*%s)" % s
        else:
            s += "." + e
    return s


def op(o):
    if "c" in o:
        return place(o["c"])
    if "m" in o:
        return "move " + place(o["m"])
    if "k" in o:
        k = o["k"]
        for key in ("fn", "def"):
            if key in k:
                extra = ""
                if "int" in k:
                    extra = "=%s" % k["int"]
                return "const %s%s" % (k[key], extra)
        for key in ("int", "bool", "str"):
            if key in k:
                return "const %r" % (k[key],)
        return "const <%s>" % k["ty"]
    return "?"


def rv(r):
    k = r["k"]
    if k == "use":
        return op(r["o"])
    if k == "ref":
        return ("&mut " if r.get("mut") else "&") + place(r["p"])
    if k == "bin":
        return "%s(%s, %s)" % (r["op"], op(r["a"]), op(r["b"]))
    if k == "un":
        return "%s(%s)" % (r["op"], op(r["a"]))
    if k == "cast":
        return "%s as %s" % (op(r["o"]), r["ty"])
    if k == "discr":
        return "discriminant(%s)" % place(r["p"])
    if k == "agg":
        if r["agg"] == "adt":
            return "%s::%s{%s}" % (r["adt"], r["variant"], ", ".join("%s: %s" % (f, op(o)) for f, o in zip(r["fields"], r["ops"])))
        if r["agg"] in ("closure", "coroutine", "coroutine_closure"):
            return "%s[%s](%s)" % (r["agg"], r["def"], ", ".join(op(o) for o in r["ops"]))
        return "%s(%s)" % (r["agg"], ", ".join(op(o) for o in r["ops"]))
    return k


def show(b, macros=False):
    print("==== %s  [%s, %s, argc=%d] %s" % (b.id, b.kind, b.stage, b.argc, b.span))
    for i, l in enumerate(b.locals):
        if l.get("name") or l.get("g") or i <= b.argc:
            print("   let _%d: %s%s%s" % (i, l["ty"], "  // " + l["name"] if l.get("name") else "", "  GUARD" if l.get("g") else ""))
    for u in b.upvars:
        print("   upvar %s = %s" % (u["name"], place(u["p"])))
    for i in b.rpo():
        bl = b.blocks[i]
        if bl.get("cleanup"):
            continue
        print(" bb%d:" % i)
        for s in bl["s"]:
            if s["k"] == "assign":
                if s.get("x") and not macros:
                    continue
                print("     %s = %s" % (place(s["d"]), rv(s["rv"])))
            elif s["k"] == "dead":
                if b.locals[s["l"]].get("g"):
                    print("     StorageDead(_%d)" % s["l"])
        t = b.term(i)
        k = t["k"]
        ln = t.get("line", "").split(":")[-1]
        if k == "call":
            tgt = call_target(t) or ("indirect " + op(t["indirect"]))
            print("     %s = %s(%s) -> bb%s   [%s]%s" % (place(t["dest"]), t.get("rinst") or t.get("inst") or tgt, ", ".join(op(a) for a in t["args"]), t.get("t"), ln, " X" if t.get("x") else ""))
        elif k == "switch":
            print("     switch %s -> %s otherwise bb%d   [%s]" % (op(t["d"]), ", ".join("%s:bb%d" % (v, bb) for v, bb in t["targets"]), t["otherwise"], ln))
        elif k == "drop":
            print("     drop(%s) -> bb%d" % (place(t["p"]), t["t"]))
        elif k == "goto":
            print("     goto bb%d" % t["t"])
        elif k == "yield":
            print("     yield -> bb%d" % t["t"])
        elif k == "assert":
            print("     assert(%s == %s, %s) -> bb%d" % (op(t["cond"]), t["expected"], t["msg"], t["t"]))
        else:
            print("     %s" % k)


if __name__ == "__main__":
    p = Program.load()
    pat = sys.argv[1]
    for k, b in p.bodies.items():
        if pat in k and ("--all" in sys.argv or k.endswith(pat) or True):
            if "--exact" in sys.argv and k != pat:
                continue
            show(b, macros="--macros" in sys.argv)
