"""Property registry: which rules decide which property, and the claim text that goes into the evidence."""
import os
import sys

from .context import Ctx
from .framework import run_property
from . import rules_locks as LK

COMMON_ASSUMPTIONS = [
    "rustc's MIR construction and trait resolution are correct; the extracted mir_built bodies are the program that runs",
    "every future created by calling an async fn is awaited immediately at its creation site (true for every call site in this workspace)",
    "external generic code calls back only as listed in analysis/callgraph.py (SpvClient::poll_best_tip -> Listen impls in tuple order)",
    "unwind (panic) paths are excluded from ordering rules; panics are the subject of the PN rules",
    "anchored items (functions, types, fields, constants named by a rule) keep their paths; a rename fails the rule closed",
]

REGISTRY = {}


def prop(pid, rules, explanation, extra_assumptions=(), technique="static analysis of MIR"):
    REGISTRY[pid] = {"rules": rules, "explanation": explanation, "assumptions": COMMON_ASSUMPTIONS + list(extra_assumptions), "technique": technique}


from . import rules_order as RO, rules_tower as RT, rules_plugin as PL, rules_panic as PN, rules_sql as SQ, rules_wire as WT, rules_config as CF, rules_outage as OUT, rules_index as IX, rules_txindex as TH, rules_crypto as CY, rules_errors as ED, rules_storage as DX

STATIC = ("This check decides structural clauses that are necessary conditions of the property, for ALL paths / thread pairs / table rows of the "
          "compiled program (MIR of /repo's working tree); it does not decide the behavioural statement as a whole. ")

prop("C01", [RO.rule_OR1, RO.rule_OR2_watcher, RO.rule_OR2_responder, RO.rule_CR, LK.rule_AT1, RO.rule_EF1, RO.rule_EF3, SQ.rule_SQ4, RO.rule_TX, LK.rule_AT6, SQ.rule_SQ1],
     STATIC + "Decided: listener order Gatekeeper>Watcher>Responder (OR1); the breach pipeline is complete on every path — cache update, DB intersection, "
     "decrypt with the matched dispute's txid, hand-over to the responder, node decision, tracker iff accepted, failures and only failures to the delete list, "
     "no early loop exit (OR2w/OR2r); no accepted-but-unwatched window against the block thread (AT1); cache window 6 / index 100 / locator 16 bytes (EF3); "
     "breach provenance (EF1). NOT decided: that the right set of breaches is computed for every history (SQL IN semantics, collisions, node verdict mapping).",
     technique="MIR path-fact dataflow + origin tracing + lock-span analysis")
prop("C02", [RO.rule_EF1, RO.rule_OR2_responder, RO.rule_CR, RO.rule_OR2_gatekeeper, RO.rule_OR1, SQ.rule_SQ1, RO.rule_TX, LK.rule_AT1, ED.rule_ED, SQ.rule_SQ4],
     STATIC + "Decided: only Carrier::send_transaction reaches sendrawtransaction, and every transaction handed to it is either the Ok payload of "
     "decrypt(blob, txid(dispute)) paired with that dispute, or a field of a stored tracker (EF1); tracker iff accepted, both disconnect handlers purge their index (OR2r); "
     "owner removal precedes Watcher/Responder and cascades in the DB, foreign keys switched on in the production constructor (OR1, OR2g, SQ1); a cache hit is acted on inside the same locator-cache critical section that found it, so the disconnect purge cannot run between look-up and broadcast (AT1). "
     "NOT decided: that exactly the disconnected block's entries are purged (container contents, C19).",
     technique="who-may-call + interprocedural origin tracing + SQL schema tables")
prop("C03", [RO.rule_OR3, CF.rule_CF_switches, SQ.rule_SQ7, SQ.rule_SQ8, LK.rule_CBS, LK.rule_CBR, RO.rule_OR2_watcher, SQ.rule_SQ3, SQ.rule_SQ1, SQ.rule_SQ5_tower, LK.rule_AT2, RO.rule_OR2_gatekeeper, ED.rule_ED, DX.rule_DX, SQ.rule_SQ4],
     STATIC + "Decided (ordering of durable effects, what crash-safety rests on): last-known-block written by one function only on Ok(Better(tip)) of the poll that delivered the blocks; "
     "bootstrap poll before any API is spawned; tower key regenerated only if --overwritekey or none stored (OR3); slots charged (successfully) before the store (CBS); "
     "multi-statement writes are one committed sqlite transaction (SQ3); cascades on (SQ1); one critical section and one DB delete per balance update (AT2); "
     "memory purge always followed by the DB purge (OR2g); the generic statement executor answers Ok only when sqlite did and keeps primary-key and foreign-key refusals apart, and a tracker's status round-trips through its two columns (DX); block processing is re-runnable in the sense that, on a replayed block, only undecryptable or node-rejected breaches are dropped (OR2w: any other verdict, e.g. already-in-chain, keeps the appointment and its tracker). NOT decided: enumeration of crash points, replay equivalence, partial-progress semantics of the SPV client.",
     technique="must-precede / must-follow path analysis on MIR + SQL statement tables")
prop("C04", [RO.rule_OR2_responder, RO.rule_CR, RO.rule_EF2, RO.rule_EF3, SQ.rule_SQ4, RO.rule_TX, RT.rule_SL, TH.rule_TH, LK.rule_AT4, DX.rule_DX, LK.rule_AT6],
     STATIC + "Decided: Responder connect/disconnect pipelines complete on all paths; reorg handler gated by coming_from_reorg and re-announces dispute then penalty of the stored tracker; "
     "rejected re-submissions queued for the no-refund delete; completion guard `current_height - h == IRREVOCABLY_RESOLVED` on ConfirmedIn(h); rebroadcast threshold "
     "InMempoolSince(height - 6) (OR2r); refund flag constant and true exactly for check_confirmations' list (EF2); constants 100/6 (EF3); the refund persisted with the deletion is the balance after every addition (SL); the confirmation height taken from the index is the block's chain height in every reachable index state (TH). "
     "NOT decided: arithmetic over chain evolutions (off-by-one of the completion height, cadence, status after a reorg of depth d).",
     technique="MIR path facts + comparison-shape and constant-origin rules")
prop("C05", [PL.rule_PL1, PL.rule_PL3, PL.rule_PL7, PN.rule_PN_plugin, SQ.rule_SQ5_client, PL.rule_PT, PL.rule_PL9],
     STATIC + "Decided: every reply class of the per-tower loop ends in a durable record (PL1); pending->accepted/invalid adds before it deletes (PL3); mutators persist on the known-tower path, "
     "only mutators write, pending work is re-queued at start-up and on idle wake-up, loaders agree (PL7); no tower reply or repeated notification reaches an unwrap (PNp). "
     "NOT decided: SIGKILL durability, exactly-one-of accounting across towers over a history.",
     technique="reply-class enumeration by CFG reachability + classified-unwrap table + SQL insert classification")
prop("C06", [RT.rule_AU1, RO.rule_OR2_watcher, RT.rule_SB, WT.rule_WT3],
     STATIC + "Decided for add_appointment / get_appointment / get_subscription_info: nothing that takes a lock (reads or writes tower state) is reachable before authenticate_user succeeded and "
     "has_subscription_expired was found false; the expired path is effect-free; every user id flowing into UUID::new / ExtendedAppointment::new / add_update_appointment / get_user_info / "
     "has_subscription_expired is the Ok payload of authenticate_user; the signed message is the request-specific one and its template equals what the client signs; "
     "authenticate_user returns Ok only for a recovered key that is a registered user; appointments of different users under one locator are handled independently per block (OR2w: every (locator, uuid) pair is visited, a failure of one never ends the loop); the expiry the check reads moves only with an accepted, persisted renewal (SB all-or-nothing); the bytes a signature is checked against determine every field of the request (WT3: each field once, integers whole) — otherwise a signature over one appointment authenticates another. NOT decided: cryptographic claims, isolation over multi-user histories.",
     technique="branch-fact dataflow + origin tracing (identity provenance) + literal cross-check")
prop("C07", [RT.rule_SL, LK.rule_AT2, RO.rule_EF2, RO.rule_EF3, SQ.rule_SQ3, SQ.rule_SQ5_tower, LK.rule_CBS, SQ.rule_SQ4, RT.rule_SB, SQ.rule_SQ7, SQ.rule_SQ8, RO.rule_OR2_watcher],
     STATIC + "Decided: the only subtraction of slots is guarded by `required - used <= available` and equals available - (slots(new) - slots(stored for this uuid)); renewal uses checked_add; "
     "refund adds slots(stored blob) and is persisted in the deletion's transaction; one critical section per balance update; only completion refunds; one divisor (2048) at all charge/refund sites; "
     "the balance reported is the one computed and persisted; a charge is always followed by the store (no refusal after the balance moved) (CBS); the reads the charge and the refund are computed from range over every stored appointment of the uuid, triggered or not (SQ4 query-scope table); a refused registration writes nothing to the live record, so no slots are minted by a request that was turned down (SB all-or-nothing). NOT decided: the conservation law over histories, the float slot formula per blob length.",
     technique="comparison/arithmetic shape rules over origin terms + lock spans")
prop("C08", [RT.rule_RC, WT.rule_WT3, SQ.rule_SQ2, LK.rule_AT2, ED.rule_ED, DX.rule_DX, RO.rule_OR2_watcher, LK.rule_AT1, SQ.rule_SQ6, SQ.rule_SQ7, SQ.rule_SQ8, RT.rule_SB],
     STATIC + "Decided: an appointment receipt is returned only on paths that stored the appointment / handed it to the responder, is built from the same ExtendedAppointment (request signature, "
     "height at acceptance) and is signed with the tower key; registration receipts are built from the persisted record; gRPC responses map like-named fields (RC); signed layouts cover every field "
     "once with at most one variable-length component, integers whole through to_be_bytes of their own width (WT3); updates rewrite all mutable columns, inserts/updates bind parameters in column order (SQ2); every read-modify-write of a user record is one critical section, so the record a registration receipt was built from is not overwritten by a concurrent stale copy (AT2); a late-triggered appointment is given up only when the Responder answered Rejected, so a receipt never stands for an appointment dropped without cause (OR2w); the cache look-up that finds the dispute confirmed and the store / hand-over that acts on it are one critical section of the locator cache, so a reorg or a re-submission cannot slip between 'confirmed' and 'dropped because the node refused' (AT1). NOT decided: signature validity, byte-for-byte read-back.",
     technique="dominance + field-level origin tracing + SQL/bind-order tables")
prop("C09", [RT.rule_SB, RO.rule_OR2_gatekeeper, RO.rule_OR1, SQ.rule_SQ1, RT.rule_AU1, CF.rule_CF, LK.rule_AT5, SQ.rule_SQ7, SQ.rule_SQ8],
     STATIC + "Decided: expired = (height >= subscription_expiry) reporting that expiry; outdated = (block_height >= subscription_expiry + expiry_delta); renewal = checked_add(expiry, duration).unwrap_or(MAX) "
     "on the existing-user arm; new user = (slots, height, height + duration); disconnect stores height - 1; purge pipeline + cascade + listener order; every request handler decides on the flag returned by has_subscription_expired itself (the Gatekeeper's verdict at its own height), not on a comparison re-derived from another height (AU1); the duration and grace period the Gatekeeper is built with are the configured ones — Config::verify rewrites nothing but the network name and an unset port, and main hands the configured fields to Gatekeeper::new (CF). NOT decided: behaviour across reorg histories and boundary configurations.",
     technique="comparison-shape rules over closure-resolved origin terms")
prop("C10", [LK.rule_lock_classes, LK.rule_AT1, LK.rule_AT2, LK.rule_AT3, LK.rule_AT4, LK.rule_AT5, LK.rule_LK0, LK.rule_LK1, LK.rule_AT6],
     STATIC + "Decided, for all paths and all pairs of threads: AT1 (cache look-up and store are one critical section of the locator-cache lock, block thread updates the cache before querying the DB), "
     "AT2 (each balance read-modify-write is one critical section), AT3 (charge and store atomic against an identical concurrent submission), AT4 (a disconnection purges the Responder's index before collecting the trackers confirmed in that block, so a concurrent trigger is either collected or misses the block), AT5 (the purge of outdated users — selection, removal from memory, deletion of the rows — is one critical section of the users lock, so a registration is handled entirely before or entirely after it), LK0/LK1 (no two operations can wait on each other). "
     "NOT decided: equivalence of final states to some sequential order (needs execution).",
     technique="guard-liveness dataflow on MIR (lock sets), lock-order graph with thread-root reachability")
prop("C11", [LK.rule_lock_classes, LK.rule_LK0, LK.rule_LK1, LK.rule_LK2, PN.rule_PN_tower, IX.rule_IXt, OUT.rule_OUT, LK.rule_AT5, RO.rule_OR2_gatekeeper, RO.rule_OR2_responder, SQ.rule_SQ4, SQ.rule_SQ8],
     STATIC + "Decided: no re-entrant acquisition (LK0), no lock-order cycle between concurrently runnable threads (LK1), condvar wait discipline (LK2), and every unwrap/expect reachable from an API or chain "
     "thread root classified: request-derived ones validated by the HTTP layer, replayed inserts guarded by an existence test in the same critical section, look-ups justified in the same critical section (PNt, "
     "each labelled with the locks held, i.e. what a panic would poison); index/slice/positional operations and explicit panic!/unreachable! on those paths are discharged by constants, length guards on every path or a closed variant set of the callee (IXt); every successful poll raises the reachability flag and notifies, whoever lowered it (OUT: the only waker of threads parked in the Carrier). NOT decided: absence of panics in general (sqlite I/O), liveness after arbitrary histories.",
     technique="lock-order graph + condvar wake-up reachability + classified-unwrap table with same-section discharge")
prop("C12", [OUT.rule_OUT, LK.rule_LK2, IX.rule_IXt],
     STATIC + "Decided: both Carrier RPC wrappers wait for reachability first; a transport error flags the outage and re-issues the same call, never yields a verdict; the monitor sets the flag true + notify_all "
     "on every Ok poll and false on transient errors; every public handler enters the Watcher only after the 503 gate (OUT); the waker can reach its notify (LK2). NOT decided: that retries eventually succeed; timing.",
     technique="variant-fact dataflow on error arms + call-graph reachability of the only notifier")
prop("C13", [PL.rule_PL6, PL.rule_PL2, PL.rule_PL7, PL.rule_PL8, PL.rule_PT, PL.rule_PL9],
     STATIC + "Decided: who may feed / wake / create / start a retrier (one per tower, start only if stopped with pending data, wake only idle ones, Stale only when retryable and no retrier) (PL6); every reply class in "
     "Retrier::run makes progress or leaves; run only under the bounded exponential back-off built from the configured values (PL2); reload on start and on idle wake-up (PL7); each outcome arm sets the documented status, "
     "predicate tables (PL8). NOT decided: delays, the back-off schedule, 'within the configured delays'.",
     technique="gate facts on channel sends + CFG progress analysis + enum predicate tables by abstract evaluation")
prop("C14", [PL.rule_PL4, PL.rule_PL5, PN.rule_PN_plugin, PL.rule_PL1, PL.rule_PL2, PL.rule_PL7, IX.rule_IXp, PL.rule_PL8, SQ.rule_SQ6],
     STATIC + "Decided: add_update_tower only under receipt.verify(tower_id) == true of the same receipt, strict extension of expiry and slots for a known tower; appointment receipts accepted only if the recovered signer "
     "equals the tower id, otherwise SignatureError -> proof persisted before the status flips -> permanent on the retry path (PL4); sends only to reachable towers, status predicate tables (PL5); no reply class panics (PNp), "
     "is left unrecorded (PL1) or wedges the retry loop (PL2); the in-memory status that gates sending is written only by the listed mutators and never rebuilt from a reply (PL7); no index/slice/positional operation or explicit panic on reply-driven paths is undischarged (IXp). NOT decided: 'any reply' for panics inside reqwest/serde.",
     technique="guard facts at call sites + origin equality of verified/recorded values + classified-unwrap table")
prop("C15", [WT.rule_HT1, PN.rule_PN2, WT.rule_WT4, IX.rule_IXt, LK.rule_CBS, RT.rule_SB, WT.rule_WT2, LK.rule_LK0, LK.rule_LK1, OUT.rule_OUT],
     STATIC + "Decided: the tonic codes constructible in the public handlers are all mapped by explicit arms of match_status to the documented error constants, UNEXPECTED_ERROR only on the catch-all; handle_rejection / ApiError "
     "emit only documented codes; four POST routes with their body limits, one shared recover(handle_rejection); empty/size checks precede forwarding (HT1); what the internal service unwraps on request data is validated "
     "by the HTTP handler before the gRPC call (PN2); the HTTP layer, the serde adapters and everything reachable from the handlers contain no undischarged index/slice/byte-offset string operation or explicit panic (IXt); add_appointment cannot be refused after the slots were charged (CBS: the one state change that precedes the last failure point); a refused registration writes nothing to the live record (SB all-or-nothing renewal); each handler refuses exactly the documented field shapes (HT1 field-check table). NOT decided: promptness, 5xx freedom inside warp/tonic, state unchanged after non-200.",
     technique="finite code tables extracted from MIR switches + validated-before-forwarded facts")
prop("C16", [WT.rule_WT1, WT.rule_WT2, WT.rule_WT3, WT.rule_WT4, RT.rule_AU1, WT.rule_HT1],
     STATIC + "Decided: per endpoint both sides (de)serialise the same generated message type (so names, renames and adapters agree by construction); the two ApiError structs are twins; status Display/FromStr are inverse "
     "bijections and agree with the discriminants; custom serde adapters are inverse pairs; signed layouts determine their fields; the signed message templates agree; the tower-side handlers refuse only the documented field shapes, so nothing the client can emit within the size limit is turned down for its field lengths (HT1). NOT decided: round-trip identity over all values, body-size limit vs largest request.",
     technique="type-argument agreement at (de)serialisation call sites + table extraction")
prop("C17", [CY.rule_CY, RO.rule_EF3],
     STATIC + "Decided (agreement of sibling implementations, nothing about computed values): encrypt and decrypt build the same cipher (ChaCha20-Poly1305, key = sha256 of the secret parameter only) "
     "with the same constant nonce, exactly one AEAD call each; the plaintext is consensus::serialize(message) and the ciphertext returned is the AEAD output unchanged; decrypt feeds the whole blob to the AEAD and "
     "returns Ok only as the strict consensus::deserialize of the authenticated plaintext, an AEAD failure being an error; sign / recover_pk forward their arguments unchanged to the Lightning message-signing "
     "functions; verify = (recover_pk(msg, sig) == pk) with every error mapped to false (CY); locator = first 16 bytes of the txid (EF3). NOT decided: that the primitives are inverse / reject tampering for all inputs "
     "(values computed by ChaCha20-Poly1305, SHA-256, ECDSA), nor anything about the primitives' own code.",
     technique="sibling-agreement check on interprocedural origin terms (canonicalised operand terms of the two AEAD call sites) + return-term shape")
prop("C18", [PL.rule_PL7, SQ.rule_SQ1, SQ.rule_SQ3, PL.rule_PL3, SQ.rule_SQ5_client, ED.rule_ED, DX.rule_DX, SQ.rule_SQ2, SQ.rule_SQ6, SQ.rule_SQ7, SQ.rule_SQ8],
     STATIC + "Decided: every mutator changes memory and disk together and only mutators do; status reconstruction agrees between the two loaders; client schema cascades from towers (and appointments) with foreign keys on; "
     "multi-statement writes are transactions; add-before-delete. NOT decided: the reference-counting rule of delete_pending_appointment over operation sequences; memory == disk after histories.",
     technique="who-may-write/call tables + must-follow analysis + SQL schema tables")
prop("C19", [RO.rule_TX, TH.rule_TH, RO.rule_EF3],
     STATIC + "Decided: (TX) every mutator of the bounded index touches map, queue and per-block key list on all paths, eviction iff over size, disconnect removes exactly the keys listed for that block, "
     "`tip` moves only with an eviction; (TH) counter abstraction (tip, len, size, ghost height of the front block): each mutator path is a constant effect vector read off the MIR, get_height's result is linearised, "
     "and reported height = chain height holds on the affine hull of all reachable states (bootstrap state + span of the path effects); (EF3) the two indexes are bootstrapped from the newest 6 / 100 blocks of the newest-first list. NOT decided: the contents clause (exactly the transactions of the last N blocks, "
     "a key re-appearing in a replacement block), which relates container contents over histories.",
     technique="affine effect summaries per CFG path + affine-hull invariant check (Karr domain, translations only) + structural mutator rules")
prop("C20", [CF.rule_CF, RO.rule_OR3_config],
     "Decided (nearly the whole statement, exhaustively over the finite tables): per-option precedence CLI > file > default; overwrite_key/force_update from the command line only; documented numeric defaults; "
     "the 8-row credential table and that verify refuses Invalid/Multiple; the network->port table, normalisation, port defaulting only when unset; unknown network refused; main verifies before opening the DB and exits on Err.",
     technique="origin of field writes + abstract evaluation of decision tables over finite domains")

NOT_APPLICABLE = [
]


def main(argv):
    if not argv:
        print("usage: ./check <property id>|all [--tier quick|thorough]")
        return 2
    pid = argv[0]
    tier = os.environ.get("VERIF_TIER", "quick")
    if "--tier" in argv:
        tier = argv[argv.index("--tier") + 1]
    seed = int(os.environ.get("VERIF_SEED", "0") or 0)
    ctx = Ctx(force=(tier == "thorough"))
    pids = sorted(REGISTRY) if pid == "all" else [pid]
    rc = 0
    for p in pids:
        if p not in REGISTRY:
            print("unknown or unclaimed property %s" % p)
            return 2
        spec = REGISTRY[p]
        extra = {}
        if tier == "thorough":
            extra = thorough_extras(p, ctx)
        results, violations, known_hits, lines = run_property(
            p, spec["rules"], ctx, tier, "", spec["assumptions"], spec["explanation"], seed, extra=extra)
        ob = sum(r.obligations for r in results)
        print("[%s] tier=%s rules=%d obligations=%d violations=%d known=%d facts=%s" % (
            p, tier, len(results), ob, len(violations), len(known_hits), ctx.prog.digest[:12]))
        for r in results:
            print("   %-10s %3d obligations, %d findings  -- %s" % (r.rule, r.obligations, len(r.findings), r.title))
        for l in lines:
            print(l)
        if violations:
            rc = 1
        if extra.get("selftest_failed"):
            print("CHECKER-SELFTEST-FAILED property=%s: %s" % (p, extra["selftest_failed"]))
            rc = rc or 3
    return rc


def thorough_extras(pid, ctx):
    """thorough tier: (1) facts were re-extracted from scratch; (2) the verdicts are recomputed with a deeper
    interprocedural origin bound and must agree; (3) the seeded corpus for this property is replayed in scratch
    copies of /repo: every variant must compile and make its named rule fire."""
    import time
    from .context import Ctx as _C
    from .framework import RuleResult
    from . import selftest
    extra = {}
    t0 = time.time()
    # (2) deeper bound
    deep = _C.__new__(_C)
    deep.__dict__.update(ctx.__dict__)
    deep._og = {}
    deep._pf = None
    deep.__dict__.pop("_lk_edges", None)
    deep.__dict__.pop("_held_entry", None)
    base_depth = 6
    deep.origins = lambda depth=3, _d=base_depth, _s=deep: _C.origins(_s, max(depth, _d) if depth else 0)
    keys_deep = set()
    keys_base = set()
    for r in REGISTRY[pid]["rules"]:
        for c_, acc in ((ctx, keys_base), (deep, keys_deep)):
            try:
                out = r(c_, "thorough")
            except Exception as e:  # noqa
                acc.add(("crash", getattr(r, "__name__", "?"), type(e).__name__))
                continue
            out = out if isinstance(out, list) else [out]
            for rr in out:
                for f in rr.findings:
                    acc.add((rr.rule, f.key))
    extra["deeper_origin_bound"] = {"depth": base_depth, "verdicts_agree": keys_base == keys_deep,
                                    "only_at_depth_3": sorted(map(str, keys_base - keys_deep)), "only_at_depth_6": sorted(map(str, keys_deep - keys_base))}
    # (3) seeded corpus
    if os.environ.get("VERIF_NO_SELFTEST") != "1" and not os.environ.get("VERIF_FACTS_CACHE"):
        rs = selftest.run(only_property=pid)
        extra["seeded_corpus"] = [{"case": r["case"], "detected": r["ok"], "hit": r.get("hit"), "missed": r.get("missed"), "reason": r.get("reason"), "seconds": r["seconds"]} for r in rs]
        # a corpus patch that does not apply means /repo's tree is not the reference tree the corpus was cut against (somebody is
        # trying an edit): that variant cannot be replayed here and says nothing about the checker — it is recorded and skipped
        # ... and so does a patch that applies textually but no longer compiles there (it calls something the edit removed)
        skipped = [r["case"] for r in rs if not r["ok"] and any(x in (r.get("reason") or "") for x in ("does not apply", "does not compile"))]
        if skipped:
            extra["seeded_corpus_skipped"] = {"reason": "patch does not apply to / does not compile against the current tree", "cases": skipped}
        missed = [r["case"] for r in rs if not r["ok"] and r["case"] not in skipped]
        if missed:
            extra["selftest_failed"] = "seeded variants not detected: %s" % missed
    extra["thorough_seconds"] = round(time.time() - t0, 1)
    return extra
