"""Property registry: which rules decide which property, and the claim text that goes into the evidence."""
import os
import sys

from .context import Ctx
from .framework import run_property
from . import rules_locks as LK

COMMON_ASSUMPTIONS = [
    "rustc's MIR construction and trait resolution are correct; the extracted mir_built bodies are the program that runs",
    "every future created by calling an async fn is awaited immediately at its creation site (true for every call site in this workspace)",
    "external generic code calls back only as listed in analysis/callgraph.py (SpvClient::poll_best_tip -> Listen impls in tuple order)",
    "unwind (panic) paths are excluded from ordering rules; panics are the subject of the PN rules",
    "anchored items (functions, types, fields, constants named by a rule) keep their paths; a rename fails the rule closed",
]

REGISTRY = {}


def prop(pid, rules, explanation, extra_assumptions=()):
    REGISTRY[pid] = {"rules": rules, "explanation": explanation, "assumptions": COMMON_ASSUMPTIONS + list(extra_assumptions)}


prop("C10", [LK.rule_lock_classes, LK.rule_AT1, LK.rule_AT2, LK.rule_AT3, LK.rule_LK0, LK.rule_LK1],
     "Decides the lock-scope facts serialisability rests on, for all paths and all pairs of threads: AT1 (cache look-up and "
     "store in add_appointment are one critical section of the locator-cache lock, and the block thread updates the cache before "
     "querying the DB: no accepted-but-unwatched window), AT2 (each balance read-modify-write is one critical section), AT3 "
     "(charge and store atomic against an identical concurrent submission), LK0/LK1 (no two operations can wait on each other). "
     "NOT decided: equivalence of final states to some sequential order (needs execution).")
prop("C11", [LK.rule_lock_classes, LK.rule_LK0, LK.rule_LK1, LK.rule_LK2],
     "Decides, for all pairs of threads and all call paths: no re-entrant acquisition (LK0), no lock-order cycle between concurrently "
     "runnable threads (LK1), condvar wait discipline (LK2). NOT decided: absence of panics in general, liveness after arbitrary histories.")
prop("C12", [LK.rule_LK2],
     "Decides the wake-up structure of the bitcoind-outage mechanism (LK2). NOT decided: that a retried submission eventually succeeds; timing.")


def main(argv):
    if not argv:
        print("usage: ./check <property id>|all [--tier quick|thorough]")
        return 2
    pid = argv[0]
    tier = os.environ.get("VERIF_TIER", "quick")
    if "--tier" in argv:
        tier = argv[argv.index("--tier") + 1]
    seed = int(os.environ.get("VERIF_SEED", "0") or 0)
    ctx = Ctx(force=(tier == "thorough"))
    pids = sorted(REGISTRY) if pid == "all" else [pid]
    rc = 0
    for p in pids:
        if p not in REGISTRY:
            print("unknown or unclaimed property %s" % p)
            return 2
        spec = REGISTRY[p]
        results, violations, known_hits, lines = run_property(
            p, spec["rules"], ctx, tier, "", spec["assumptions"], spec["explanation"], seed)
        ob = sum(r.obligations for r in results)
        print("[%s] tier=%s rules=%d obligations=%d violations=%d known=%d facts=%s" % (
            p, tier, len(results), ob, len(violations), len(known_hits), ctx.prog.digest[:12]))
        for r in results:
            print("   %-10s %3d obligations, %d findings  -- %s" % (r.rule, r.obligations, len(r.findings), r.title))
        for l in lines:
            print(l)
        if violations:
            rc = 1
    return rc
