"""python3 -m analysis.addseed <id> <name> '<needs>' '<initially: caught|missed ...>' P:RULE:key [P:RULE:key ...] : files a confirmed seeded change"""
import json, os, shutil, sys, re
VERIF = os.path.dirname(os.path.dirname(os.path.abspath(__file__)))
pid, name, needs, initially = sys.argv[1:5]
exp = [x.split(":", 2) for x in sys.argv[5:]]
src = os.environ.get("SEED_SRC") or "/tmp/seed/%s" % pid
dst = os.path.join(VERIF, "seeded", "%s_%s" % (pid, name))
os.makedirs(dst, exist_ok=True)
for f in os.listdir(src):
    if f.endswith((".diff", ".md", ".txt")):
        shutil.copy(os.path.join(src, f), dst)
log = open(os.environ.get("CONFIRM_LOG") or "/tmp/confirm_%s.log" % pid).read()
ms = re.findall(r"RESULT (.*)", log); m = re.match(r"(.*)", ms[-1]) if ms else None
meta = {
    "property": pid, "breaks": sorted({e[0] for e in exp}), "origin": "independent sub-agent given only the property text and a scratch worktree",
    "needs_to_manifest": needs,
    "confirmed_by_me": {"command": "analysis/confirm_seed.sh " + src + "  (scratch worktree /tmp/confirmwt at /repo HEAD: apply patch, full suite; apply demo, run demo; revert patch, run demo)", "result": m.group(1) if m else "?"},
    "detection": initially,
    "expect": [{"property": p, "rule": r, "key": k} for p, r, k in exp],
}
json.dump(meta, open(os.path.join(dst, "meta.json"), "w"), indent=1)
print(dst, meta["confirmed_by_me"]["result"])
