#!/bin/bash
# confirm_seed.sh <dir with patch.diff + demo.diff> : confirms a seeded change in the scratch worktree /tmp/confirmwt
#   1. patch applies, workspace builds, the ENTIRE existing suite passes with it
#   2. demonstration fails with the patch   3. demonstration passes without it
set -u
D=$1; WT=/tmp/confirmwt; export CARGO_TARGET_DIR=/tmp/fixwt_target
cd $WT && git checkout -q -- . && git clean -fdq
git apply $D/patch.diff || { echo "RESULT patch-does-not-apply"; exit 1; }
pkgs=$(grep -h '^+++ b/' $D/demo.diff $D/patch.diff | sed 's|+++ b/||' | cut -d/ -f1 | sort -u | tr '\n' ' ')
echo "== full suite with patch"
timeout 1500 cargo test --workspace --no-fail-fast --offline > /tmp/confirm_suite.log 2>&1
passed=$(grep -E "^test result" /tmp/confirm_suite.log | awk '{s+=$4} END {print s}')
failed=$(grep -E "^test result" /tmp/confirm_suite.log | awk '{s+=$6} END {print s}')
echo "SUITE passed=$passed failed=$failed"
git apply $D/demo.diff || { echo "RESULT demo-does-not-apply"; exit 1; }
names=$(grep -E '^\+.*fn [a-z_0-9]+\(' $D/demo.diff | grep -B0 -E 'fn (demo|test|seed|break|c[0-9]+)[a-z_0-9]*' | sed -E 's/.*fn ([a-z_0-9]+)\(.*/\1/' | sort -u)
tests=$(awk '/^\+[[:space:]]*#\[(tokio::)?test/ {want=1; next} want && /fn [a-z_0-9]+/ {match($0, /fn [a-z_0-9]+/); print substr($0, RSTART+3, RLENGTH-3); want=0}' $D/demo.diff | sort -u)
echo "demo tests: $tests"
run_demo() {
  ok=1
  for t in $tests; do
    ran=0
    for p in teos teos-common watchtower-plugin; do
      if grep -q "$p/" <<< "$(grep -h '^+++ b/' $D/demo.diff)"; then
        timeout 900 cargo test --offline -p $p $t -- --test-threads=1 > /tmp/confirm_demo.log 2>&1
        if grep -qE "test result: FAILED|panicked|error\[" /tmp/confirm_demo.log; then ok=0; fi
        if grep -qE "test result: ok. [1-9]" /tmp/confirm_demo.log; then ran=1; fi
      fi
    done
    # a test lives in one package only: it must have run (and passed) somewhere
    if [ $ran = 0 ]; then ok=0; fi
  done
  echo $ok
}
echo "== demo with patch (must fail)"; w=$(run_demo); cp /tmp/confirm_demo.log /tmp/confirm_demo_with.log
git apply -R $D/patch.diff
echo "== demo without patch (must pass)"; wo=$(run_demo)
echo "RESULT suite_passed=$passed suite_failed=$failed demo_with_patch_ok=$w demo_without_patch_ok=$wo"
git checkout -q -- . && git clean -fdq
