"""E3: origin tracer — backward def-use, field-sensitive, bounded interprocedural.

Terms (hashable tuples):
  ("const", value, def|None, ty)      ("fn", path)            ("param", body_id, index)
  ("call", callee, (args...), site)   ("agg", adt, variant, ((field, term)...))   ("tuple", (terms...))
  ("closure", def, (captures...))     ("bin", op, a, b)       ("un", op, a)       ("cast", term, ty)
  ("discr", term)                     ("proj", term, (elems...))                  ("phi", (terms...))
  ("upvar", body_id, field)           ("top", reason)
References and derefs are transparent. `x.unwrap()`, `x?`, `x.expect()` become ("proj", x, ("v:Ok","f:0")).
"""
from .facts import call_names, call_target

TRANSPARENT = (
    "std::ops::Deref>::deref", "std::ops::DerefMut>::deref_mut", "std::ops::Deref::deref", "std::ops::DerefMut::deref_mut",
    "std::clone::Clone>::clone", "std::clone::Clone::clone", "std::borrow::ToOwned>::to_owned", "std::borrow::ToOwned::to_owned",
    "std::borrow::Borrow>::borrow", "std::borrow::BorrowMut>::borrow_mut", "std::convert::AsRef>::as_ref", "std::convert::AsRef::as_ref",
    "std::string::String::as_str", "str::as_bytes", "std::string::String::as_bytes", "std::vec::Vec::<T, A>::as_slice",
    "std::option::Option::<T>::as_ref", "std::option::Option::<T>::as_mut", "std::result::Result::<T, E>::as_ref",
    "std::convert::Into>::into", "std::convert::From>::from", "std::convert::Into::into", "std::convert::From::from",
    "std::future::IntoFuture>::into_future", "std::future::IntoFuture::into_future",
    "std::pin::Pin::<Ptr>::new_unchecked", "std::pin::Pin::<&'a mut T>::get_unchecked_mut", "std::pin::Pin::<Ptr>::as_mut",
    "std::iter::IntoIterator>::into_iter", "std::iter::IntoIterator::into_iter",
    "std::option::Option::<&T>::cloned", "std::option::Option::<&T>::copied",
    "std::string::ToString>::to_string", "std::string::ToString::to_string",
    "std::sync::Arc::<T, A>::clone",
)
UNWRAP_OK = ("std::result::Result::<T, E>::unwrap", "std::result::Result::<T, E>::expect")
UNWRAP_SOME = ("std::option::Option::<T>::unwrap", "std::option::Option::<T>::expect")
TRY_BRANCH = ("std::ops::Try>::branch", "std::ops::Try::branch")

OK_PRESERVING = ("std::result::Result::<T, E>::map_err", "std::result::Result::<T, E>::or_else", "std::result::Result::<T, E>::inspect_err")
RESULT_TO_SOME = {"std::result::Result::<T, E>::ok": "v:Ok", "std::result::Result::<T, E>::err": "v:Err"}
SOME_TO_OK = ("std::option::Option::<T>::ok_or", "std::option::Option::<T>::ok_or_else")

TOP = ("top", "?")


def is_transparent(name):
    return bool(name) and (name.endswith(TRANSPARENT) or name in TRANSPARENT)


class Origins:
    def __init__(self, prog, cg, max_depth=3):
        self.prog = prog
        self.cg = cg
        self.max_depth = max_depth
        self._memo = {}

    # ---- public ----
    def operand(self, body, op, depth=0, stack=()):
        if "k" in op:
            k = op["k"]
            if "fn" in k:
                return ("fn", k["fn"])
            for key in ("int", "bool", "str"):
                if key in k:
                    return ("const", k[key], k.get("def"), k["ty"])
            if "def" in k:
                return ("const", None, k["def"], k["ty"])
            if k.get("zst"):
                return ("const", "zst", None, k["ty"])
            return ("const", None, None, k["ty"])
        pl = op.get("c") or op.get("m")
        if pl is None:
            return TOP
        return self.place(body, pl, depth, stack)

    def place(self, body, pl, depth=0, stack=()):
        base = self.local(body, pl[0], depth, stack)
        proj = tuple(e for e in pl[1:] if e != "*")
        if base[0] == "env" and proj and proj[0].startswith("f:") and proj[0][2:].isdigit():
            # closure / coroutine capture: resolve to the captured operand at the (single) construction site
            srcs = self.env_sources(base[1], depth)
            k = int(proj[0][2:])
            if len(srcs) == 1 and k < len(srcs[0][1]):
                return project(srcs[0][1][k], proj[1:])
        return project(base, proj)

    def local(self, body, l, depth=0, stack=()):
        key = (body.id, l, depth)
        if key in self._memo:
            return self._memo[key]
        if (body.id, l) in stack:
            return ("top", "cycle")
        stack = stack + ((body.id, l),)
        r = self._local(body, l, depth, stack)
        self._memo[key] = r
        return r

    # ---- internals ----
    def _local(self, body, l, depth, stack):
        if 1 <= l <= body.argc:
            if body.kind in ("closure", "coroutine") and l == 1:
                return ("env", body.id)
            return ("param", body.id, l)
        defs = body.defs().get(l, [])
        if not defs:
            pd = body.partial_defs().get(l, [])
            if pd:
                # built field by field (e.g. tuple temporaries): reconstruct as aggregate
                fields = []
                for d in pd:
                    if d[0] == "stmt":
                        s = d[3]
                        fields.append((tuple(s["d"][1:]), self._rvalue(body, s["rv"], depth, stack)))
                return ("partial", tuple(fields))
            return ("top", "undef")
        terms = []
        for d in defs:
            if d[0] == "stmt":
                terms.append(self._rvalue(body, d[3]["rv"], depth, stack))
            elif d[0] == "call":
                terms.append(self._call(body, d[1], d[2], depth, stack))
            else:
                terms.append(("top", "yield"))
        terms = _dedup(terms)
        if len(terms) == 1:
            return terms[0]
        return ("phi", tuple(terms))

    def _rvalue(self, body, rv, depth, stack):
        k = rv["k"]
        if k == "use":
            return self.operand(body, rv["o"], depth, stack)
        if k in ("ref", "rawptr"):
            return self.place(body, rv["p"], depth, stack)
        if k == "cast":
            inner = self.operand(body, rv["o"], depth, stack)
            if rv["ck"].startswith(("PointerCoercion", "Transmute", "PtrToPtr")):
                return inner
            return ("cast", inner, rv["ty"])
        if k == "bin":
            return ("bin", rv["op"], self.operand(body, rv["a"], depth, stack), self.operand(body, rv["b"], depth, stack))
        if k == "un":
            return ("un", rv["op"], self.operand(body, rv["a"], depth, stack))
        if k == "discr":
            return ("discr", self.place(body, rv["p"], depth, stack))
        if k == "agg":
            ops = tuple(self.operand(body, o, depth, stack) for o in rv["ops"])
            a = rv["agg"]
            if a == "adt":
                return ("agg", rv["adt"], rv["variant"], tuple(zip(rv["fields"], ops)))
            if a in ("tuple", "array"):
                return ("tuple", ops)
            if a in ("closure", "coroutine", "coroutine_closure"):
                return ("closure", rv["def"], ops)
            return ("top", "agg")
        if k == "repeat":
            return ("tuple", (self.operand(body, rv["o"], depth, stack),))
        return ("top", k)

    def _call(self, body, bb, t, depth, stack):
        names = call_names(t)
        tgt = call_target(t)
        args = t["args"]
        if tgt is None:
            return ("call", "<indirect>", tuple(self.operand(body, a, depth, stack) for a in args), (body.id, body.orig(bb)))
        if any(is_transparent(n) for n in names) and args:
            return self.operand(body, args[0], depth, stack)
        if names & set(UNWRAP_OK):
            return project(self.operand(body, args[0], depth, stack), ("v:Ok", "f:0"))
        if names & set(UNWRAP_SOME):
            return project(self.operand(body, args[0], depth, stack), ("v:Some", "f:0"))
        if any(n.endswith(TRY_BRANCH) for n in names):
            return ("branch", self.operand(body, args[0], depth, stack), t.get("targs", [""])[0])
        argt = tuple(self.operand(body, a, depth, stack) for a in args)
        # bounded interprocedural: substitute the callee's return origin
        callee = None
        for n in names:
            if n in self.prog.bodies:
                callee = self.prog.bodies[n]
                break
        if callee is not None and depth < self.max_depth and callee.kind in ("fn", "method") and not callee.is_async:
            ret = self.local(callee, 0, depth + 1, stack)
            sub = substitute(ret, callee.id, argt)
            if not has_top(sub) and size(sub) < 60:
                return ("ret", tgt, sub, (body.id, body.orig(bb)), argt)
        return ("call", tgt, argt, (body.id, body.orig(bb)))

    # ---- callers: resolve a param through every call site ----
    def param_sources(self, body_id, idx, depth=0):
        """terms passed as parameter `idx` (1-based local number) at every call site of body_id"""
        out = []
        for caller, bb, kind in self.cg.inn.get(body_id, []):
            if bb is None:
                continue
            cb = self.prog.bodies[caller]
            t = cb.term(bb)
            if idx - 1 < len(t.get("args", [])):
                out.append(((caller, bb), self.operand(cb, t["args"][idx - 1], depth)))
        return out

    def env_sources(self, closure_id, depth=0):
        """capture terms of a closure/coroutine at its construction site(s)"""
        out = []
        c = self.prog.bodies[closure_id]
        parent = self.prog.bodies.get(c.parent)
        if parent is None:
            return out
        for i in parent.rpo():
            for s in parent.blocks[i]["s"]:
                if s["k"] == "assign" and s["rv"]["k"] == "agg" and s["rv"].get("def") == closure_id:
                    out.append(((parent.id, i), tuple(self.operand(parent, o, depth) for o in s["rv"]["ops"])))
        return out


def _dedup(ts):
    out = []
    for t in ts:
        if t not in out:
            out.append(t)
    return out


NEVER = ("never",)


def project(term, proj):
    """apply a MIR projection to an origin term"""
    proj = tuple(e for e in proj if e != "*" and e != "oc")
    while proj:
        e = proj[0]
        k = term[0]
        if k == "agg" and e.startswith("f:"):
            name = e[2:]
            hit = None
            for f, t in term[3]:
                if f == name:
                    hit = t
            if hit is None:
                break
            term, proj = hit, proj[1:]
            continue
        if k == "agg" and e.startswith("v:") and e[2:] == term[2]:
            proj = proj[1:]
            continue
        if k == "agg" and e.startswith("v:") and e[2:] != term[2] and not e.startswith("v:#"):
            return NEVER  # the payload of another variant: this alternative cannot be the one projected
        if k == "call" and e in ("v:Ok", "v:Some", "v:Continue") and term[1].endswith("::from_residual"):
            return NEVER  # from_residual only builds the failure variant
        if k == "tuple" and e.startswith("f:") and e[2:].isdigit() and int(e[2:]) < len(term[1]):
            term, proj = term[1][int(e[2:])], proj[1:]
            continue
        if k == "partial":
            hit = None
            for fp, t in term[1]:
                fp = tuple(x for x in fp if x != "*")
                if proj[:len(fp)] == fp:
                    hit = (t, proj[len(fp):])
            if hit:
                term, proj = hit
                continue
            break
        if k == "branch" and len(proj) >= 2 and proj[0] == "v:Continue" and proj[1] == "f:0":
            ok = "v:Some" if "Option<" in term[2][:30] and "Result<" not in term[2][:30] else "v:Ok"
            term, proj = project(term[1], (ok, "f:0")), proj[2:]
            continue
        if k == "branch" and len(proj) >= 2 and proj[0] == "v:Break" and proj[1] == "f:0":
            term, proj = ("residual", term[1]), proj[2:]
            continue
        if k == "call" and e == "v:Ok" and term[1] in OK_PRESERVING and term[2]:
            term = term[2][0]
            continue
        if k == "call" and e == "v:Ok" and term[1] in SOME_TO_OK and term[2]:
            term, proj = term[2][0], ("v:Some",) + proj[1:]
            continue
        if k == "call" and e == "v:Some" and term[1] in RESULT_TO_SOME and term[2]:
            # `res.ok()` / `res.err()`: the Some payload is the Ok / Err payload of res
            term, proj = term[2][0], (RESULT_TO_SOME[term[1]],) + proj[1:]
            continue
        if k == "phi":
            alts = [project(t, proj) for t in term[1]]
            live = [a for a in alts if a != NEVER]
            if not live:
                return NEVER
            if len(live) < len(alts) and len(_dedup(live)) == 1:
                return _dedup(live)[0]
            return ("phi", tuple(_dedup(live)))
        if k == "ret":
            return ("ret", term[1], project(term[2], proj), term[3], term[4])
        if k == "proj":
            return ("proj", term[1], term[2] + proj)
        break
    if proj:
        return ("proj", term, proj)
    return term


def substitute(term, callee_id, args):
    if not isinstance(term, tuple) or not term:
        return term
    if term[0] == "param" and term[1] == callee_id:
        i = term[2] - 1
        return args[i] if i < len(args) else ("top", "arg")
    if term[0] in ("const", "fn", "top", "env", "upvar"):
        return term
    return tuple(substitute(x, callee_id, args) if isinstance(x, tuple) else x for x in term)


def has_top(term):
    if isinstance(term, tuple):
        if term and term[0] == "top":
            return True
        return any(has_top(x) for x in term)
    return False


def size(term):
    if isinstance(term, tuple):
        return 1 + sum(size(x) for x in term)
    return 1


def walk(term):
    yield term
    if isinstance(term, tuple):
        for x in term:
            if isinstance(x, tuple):
                yield from walk(x)


def calls_in(term):
    """all call targets mentioned in an origin term"""
    return [t[1] for t in walk(term) if isinstance(t, tuple) and t and t[0] in ("call", "ret") and isinstance(t[1], str)]


def consts_in(term):
    return [t for t in walk(term) if isinstance(t, tuple) and t and t[0] == "const"]


def strip(term):
    """drop site information and 'ret' wrappers for structural comparison"""
    if not isinstance(term, tuple) or not term:
        return term
    if term[0] == "call":
        return ("call", term[1], tuple(strip(a) for a in term[2]))
    if term[0] == "ret":
        return strip(term[2])
    return tuple(strip(x) if isinstance(x, tuple) else x for x in term)


def show(term, depth=0):
    if not isinstance(term, tuple) or not term:
        return repr(term)
    k = term[0]
    if depth > 6:
        return "…"
    if k == "const":
        return "const(%s%s)" % (term[2] + "=" if term[2] else "", term[1])
    if k == "fn":
        return "fn " + term[1]
    if k == "param":
        return "param#%d@%s" % (term[2], term[1].split("::")[-1])
    if k == "env":
        return "env@%s" % term[1].split("::", 1)[-1]
    if k == "call":
        return "%s(%s)" % (term[1].split("::", 1)[-1] if "::" in term[1] else term[1], ", ".join(show(a, depth + 1) for a in term[2]))
    if k == "ret":
        return "%s(%s)=>%s" % (term[1].split("::")[-1], ", ".join(show(a, depth + 1) for a in term[4]), show(term[2], depth + 1))
    if k == "agg":
        return "%s::%s{%s}" % (term[1].split("::")[-1], term[2], ", ".join("%s:%s" % (f, show(t, depth + 1)) for f, t in term[3]))
    if k == "tuple":
        return "(%s)" % ", ".join(show(t, depth + 1) for t in term[1])
    if k == "closure":
        return "closure %s[%s]" % (term[1].split("::")[-1], ", ".join(show(t, depth + 1) for t in term[2]))
    if k == "bin":
        return "%s(%s, %s)" % (term[1], show(term[2], depth + 1), show(term[3], depth + 1))
    if k == "un":
        return "%s(%s)" % (term[1], show(term[2], depth + 1))
    if k == "cast":
        return "(%s as %s)" % (show(term[1], depth + 1), term[2])
    if k == "discr":
        return "discr(%s)" % show(term[1], depth + 1)
    if k == "proj":
        return "%s.%s" % (show(term[1], depth + 1), ".".join(term[2]))
    if k == "phi":
        return "phi(%s)" % " | ".join(show(t, depth + 1) for t in term[1])
    if k == "branch":
        return "try(%s)" % show(term[1], depth + 1)
    if k == "residual":
        return "residual(%s)" % show(term[1], depth + 1)
    if k == "partial":
        return "partial{%s}" % ", ".join("%s:%s" % (".".join(p), show(t, depth + 1)) for p, t in term[1])
    return "%s" % (term,)
