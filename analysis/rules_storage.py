"""DX: the generic statement executor reports what sqlite reported, and a tracker's status round-trips through its two
database columns.

store_data answers Ok only on the Ok arm of `Connection::execute` and keeps foreign-key and primary-key violations apart;
remove_data / update_data answer Ok only when at least one row was touched; create_tables returns the commit of one
transaction that executed every table with `?`.  ConfirmationStatus::to_db_data / from_db_data are inverse on the two variants
that have a database form (checked row by row over the CFG paths of both functions)."""
from .facts import call_target
from .framework import RuleResult
from . import origin as og
from .rulekit import enumerate_paths, variant_fact, facts_at, sites_containing, shortfn

DM = "<T as teos_common::dbm::DatabaseManager>::"
CS = "teos::responder::ConfirmationStatus::"


def _ret_aggs(ctx, b, path):
    """the aggregate (or term) last assigned to the return place along a path"""
    res = None
    for bb in path:
        for s in b.blocks[bb]["s"]:
            if s["k"] == "assign" and s["d"] == [0]:
                res = (bb, ctx.og._rvalue(b, s["rv"], 0, ()))
        t = b.term(bb)
        if t["k"] == "call" and t.get("dest") == [0]:
            res = (bb, ("call", call_target(t) or "?", (), None))
    return res


def rule_DX(ctx, tier):
    rr = RuleResult("DX", "generic DB executor: Ok iff sqlite succeeded (and touched a row for delete/update); tracker status columns round-trip")
    P = ctx.prog
    sd = P.bodies.get(DM + "store_data")
    if sd is None:
        rr.anchor_missing(DM + "store_data")
    else:
        oks = [bb for bb in sd.rpo() for s in sd.blocks[bb]["s"] if s["k"] == "assign" and s["d"] == [0] and s["rv"]["k"] == "agg" and s["rv"].get("variant") == "Ok"]
        errs = {}
        for bb in sd.rpo():
            for s in sd.blocks[bb]["s"]:
                if s["k"] == "assign" and s["rv"]["k"] == "agg" and s["rv"].get("adt", "").endswith("dbm::Error"):
                    errs[s["rv"]["variant"]] = bb
        if oks and all(variant_fact(ctx, sd, bb, "Ok", "Connection", "execute") for bb in oks):
            rr.ok("store_data: Ok only when Connection::execute returned Ok", sample={"rule": "DX", "store_data": og.show(ctx.og.local(sd, 0))[:200]})
        else:
            rr.fail("store-ok-without-success", "`DatabaseManager::store_data` can answer Ok(()) on a path where `Connection::execute` did not succeed: a refused INSERT (primary key, foreign key, I/O) looks stored to every caller", where=sd.span)
        want = {"AlreadyExists": "SQLITE_CONSTRAINT_PRIMARYKEY", "MissingForeignKey": "SQLITE_CONSTRAINT_FOREIGNKEY"}
        for v, const in want.items():
            bb = errs.get(v)
            code = {"SQLITE_CONSTRAINT_PRIMARYKEY": 1555, "SQLITE_CONSTRAINT_FOREIGNKEY": 787}[const]  # sqlite3.h (19 | n << 8)
            ok = False
            if bb is not None:
                for f in facts_at(ctx, sd, bb):
                    if f[0] == "eq" and "extended_code" in og.show(f[1]) and (code is None or f[2] == code):
                        ok = True
            if ok:
                rr.ok("store_data: %s <=> %s" % (v, const))
            else:
                rr.fail("store-error-class:%s" % v, "`store_data` does not answer %s exactly for %s: callers that tell a replayed insert from a missing owner are misled" % (v, const), where=sd.span)
        if "Unknown" in errs:
            rr.ok("store_data: anything else is Err(Unknown(e))")
        else:
            rr.fail("store-error-swallowed", "`store_data` has no Err(Unknown(..)) for other sqlite errors", where=sd.span)
    rd = P.bodies.get(DM + "remove_data")
    if rd is None:
        rr.anchor_missing(DM + "remove_data")
    else:
        oks = [bb for bb in rd.rpo() for s in rd.blocks[bb]["s"] if s["k"] == "assign" and s["d"] == [0] and s["rv"]["k"] == "agg" and s["rv"].get("variant") == "Ok"]
        nf = [bb for bb in rd.rpo() for s in rd.blocks[bb]["s"] if s["k"] == "assign" and s["rv"]["k"] == "agg" and s["rv"].get("variant") == "NotFound"]

        def rows(bb, zero):
            for f in facts_at(ctx, rd, bb):
                if f[0] == "eq" and f[2] == 0 and "execute" in og.show(f[1]):
                    return zero
                if f[0] == "ne_all" and 0 in f[2] and "execute" in og.show(f[1]):
                    return not zero
            return False
        if oks and nf and all(rows(bb, False) for bb in oks) and all(rows(bb, True) for bb in nf):
            rr.ok("remove_data: NotFound iff no row was touched, else Ok")
        else:
            rr.fail("remove-row-count", "`DatabaseManager::remove_data` does not answer NotFound exactly when the statement touched no row", where=rd.span)
    ud = P.bodies.get(DM + "update_data")
    if ud is not None:
        r = og.strip(ctx.og.local(ud, 0))
        same = sites_containing(ud, "DatabaseManager", "remove_data")
        if same or ("NotFound" in og.show(r) and "Ok" in og.show(r)):
            rr.ok("update_data: same contract as remove_data")
        else:
            rr.fail("update-contract", "`update_data` returns `%s`" % og.show(r)[:100], where=ud.span)
    ct = P.bodies.get(DM + "create_tables")
    if ct is not None:
        r = og.show(ctx.og.local(ct, 0))
        if "Transaction::<'_>::commit" in r and "from_residual" in r and sites_containing(ct, "transaction"):
            rr.ok("create_tables: one transaction, every statement with `?`, returns the commit")
        else:
            rr.fail("create-tables-shape", "`create_tables` is `%s`: not a committed transaction over all tables" % r[:120], where=ct.span)
    # ---- status <-> (height, confirmed)
    to, fr = P.bodies.get(CS + "to_db_data"), P.bodies.get(CS + "from_db_data")
    if not to or not fr:
        rr.anchor_missing("ConfirmationStatus::to_db_data / from_db_data")
        return rr
    to_rows, fr_rows = {}, {}
    for path, facts, at_ret in enumerate_paths(ctx, to, [0], budget=2000):
        if not at_ret:
            continue
        v = next((f[2] for f in facts if f[0] == "variant"), None)
        ra = _ret_aggs(ctx, to, path)
        if ra is None:
            continue
        t = ra[1]
        if t[0] == "agg" and t[2] == "Some":
            tup = dict(t[3]).get("0")
            flag = tup[1][1][1] if tup and tup[0] == "tuple" and tup[1][1][0] == "const" else None
            hsrc = og.show(tup[1][0]) if tup and tup[0] == "tuple" else "?"
            to_rows[v] = ("Some", flag, hsrc.endswith(".v:%s.f:0" % v))
        elif t[0] == "agg" and t[2] == "None":
            to_rows[v or "other"] = ("None", None, None)
    for path, facts, at_ret in enumerate_paths(ctx, fr, [0], budget=2000):
        if not at_ret:
            continue
        flag = next((f[2] for f in facts if f[0] == "truth" and f[1] == ("param", fr.id, 2)), None)
        ra = _ret_aggs(ctx, fr, path)
        if ra and ra[1][0] == "agg":
            fr_rows[flag] = (ra[1][2], dict(ra[1][3]).get("0") == ("param", fr.id, 1))
    good = to_rows.get("ConfirmedIn") == ("Some", True, True) and to_rows.get("InMempoolSince") == ("Some", False, True) and \
        all(v[0] == "None" for k, v in to_rows.items() if k not in ("ConfirmedIn", "InMempoolSince")) and \
        fr_rows.get(True) == ("ConfirmedIn", True) and fr_rows.get(False) == ("InMempoolSince", True)
    if good:
        rr.ok("tracker status <-> (height, confirmed) is a bijection on {ConfirmedIn, InMempoolSince}; other variants have no database form",
              sample={"rule": "DX", "to_db_data": {str(k): v for k, v in to_rows.items()}, "from_db_data": {str(k): v for k, v in fr_rows.items()}})
    else:
        rr.fail("status-columns", "ConfirmationStatus::to_db_data %s and from_db_data %s are not inverse on ConfirmedIn/InMempoolSince: a tracker reloaded after a restart has another status (or height) than the one stored" % ({str(k): v for k, v in to_rows.items()}, {str(k): v for k, v in fr_rows.items()}), where=to.span)
    rr.require_floor(7, "DX instances")
    return rr
