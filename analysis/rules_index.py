"""IX: panics that are not unwraps — index / slice / byte-offset string operations, bounds-check and division
asserts, and explicit panic!/unreachable!/assert! — on every body reachable from a thread root or sitting in
the HTTP layer and the (de)serialisation adapters.  Every such site must be discharged: automatically (constant
index inside a constant length, index guarded by a length comparison on every path, char-boundary test before a
byte-offset string cut, closed variant set for an `unreachable!` arm) or through one confirmed table line."""
import re
from .facts import call_names, call_target
from .framework import RuleResult
from . import origin as og
from . import roots as R
from .rulekit import arg_origin, facts_at, shortfn, rel_of_term

# byte-offset / positional APIs that panic when the position is out of range or not on a char boundary
_POSITIONAL = re.compile(
    r"(^|::)(std|alloc)::string::String::(truncate|split_off|remove|insert|insert_str|drain|replace_range)$"
    r"|(^|::)(core|std)::str::<impl str>::(split_at|split_at_mut)$"
    r"|(^|::)(core|std)::slice::<impl \[T\]>::(split_at|split_at_mut|copy_from_slice|clone_from_slice|swap|copy_within|rotate_left|rotate_right)$"
    r"|(^|::)(std|alloc)::vec::Vec::<T, A>::(remove|swap_remove|insert|drain|split_off)$"
    r"|(^|::)(std|alloc)::collections::VecDeque::<T, A>::(remove|swap|insert|drain|split_off)$")
_INDEX = re.compile(r" as std::ops::Index(Mut)?<.*>>::index(_mut)?$|impl std::ops::Index(Mut)?<.*> for .*>::index(_mut)?$")
# Index impls that cannot panic (serde_json::Value yields Null) or are owned by another rule (HashMap: PN map-index)
_INDEX_EXEMPT = ("serde_json::Value", "std::collections::HashMap", "std::collections::BTreeMap")
_PANICS = re.compile(r"(^|::)(core|std)::panicking::(panic|panic_fmt|panic_display|panic_explicit|assert_failed|assert_failed_inner|unreachable_display|panic_nounwind|begin_panic)$|(^|::)std::rt::begin_panic$")

_TIME_SUB = re.compile(r"<std::time::(Duration|Instant|SystemTime) as std::ops::(Sub|SubAssign)(<[^>]*>)?>::(sub|sub_assign)$")

ADAPTER_PREFIXES = {
    "tower": ("teos::api::", "teos_common::ser", "teos_common::appointment", "teos_common::receipts", "teos_common::cryptography"),
    "plugin": ("watchtower_plugin::net", "watchtower_plugin::convert", "watchtower_plugin::ser", "teos_common::ser", "teos_common::receipts"),
}

# (function, operation) -> (confirmed count, reason).  Confirmed by reading; one line per site.
TABLE = {
    ("teos_common::appointment::Locator::new", "index"): (1, "`txid[..LOCATOR_LEN]`: constant 16-byte prefix of a 32-byte Txid"),
    ("teos::dbm::DBM::load_appointments", "index"): (1, "`raw_uuid[0..20]`: the UUID column is the table key and is only ever written from UUID::to_vec (20 bytes) by the tower itself"),
    ("teos::dbm::DBM::load_trackers", "index"): (1, "`raw_uuid[0..20]`: as load_appointments"),
    ("<teos::gatekeeper::Gatekeeper as lightning::chain::Listen>::block_disconnected", "sub"): (1, "`height - 1`: the height of a disconnected block is at least 1 (the genesis block is never disconnected)"),
    ("<teos::watcher::Watcher as lightning::chain::Listen>::block_disconnected", "sub"): (1, "`height - 1`: as for the Gatekeeper"),
    ("teos::dbm::DBM::batch_check_locators_exist", "sub"): (1, "`chunk.len() - 1`: slice::chunks never yields an empty chunk"),
    ("teos::dbm::DBM::batch_remove_appointments", "sub"): (1, "`chunk.len() - 1`: slice::chunks never yields an empty chunk"),
    ("teos::dbm::DBM::batch_remove_users", "sub"): (1, "`chunk.len() - 1`: slice::chunks never yields an empty chunk"),
    ("teos::responder::Responder::check_confirmations", "sub"): (1, "`current_height - h` for ConfirmedIn(h) only: h is the height of a block this tower processed; trackers confirmed above a disconnected height sit in the reorged set, which is skipped first (OR2r keeps check_confirmations ahead of the pass that drains that set). The same subtraction for InMempoolSince(h) had been tabled with this reason, which does not cover it (finding M13)"),
    ("teos::responder::Responder::rebroadcast_stale_txs", "sub"): (1, "`height - CONFIRMATIONS_BEFORE_RETRY`: main refuses to start below height IRREVOCABLY_RESOLVED (100)"),
    ("teos::tx_index::TxIndex::<K, V>::get_height", "sub"): (1, "`tip + pos + 1 - size`: TH's invariant (tip >= size - 1 from bootstrap on, tip only grows)"),
    ("watchtower_plugin::retrier::Retrier::start", "panic"): (1, "debug_assert_eq!(status, Stopped): compiled out of release builds; the manager thread is the only starter and calls start() only after should_start() saw Stopped"),
}

# `unreachable!` arms justified by the closed set of variants a callee can build: (function) -> callee
CLOSED = {
    "teos::responder::Responder::handle_reorged_txs": ("teos::carrier::Carrier::send_transaction", "teos::responder::ConfirmationStatus"),
}


def _in_scope(bid, kinds, scope):
    if "::tests::" in bid or "::tests" == bid[-7:] or "test_utils" in bid:
        return False
    ks = kinds.get(bid) or set()
    if scope == "tower":
        return bool(ks & {"API", "CHAIN"}) or bid.startswith(ADAPTER_PREFIXES["tower"]) or any(("<" + p) in bid or (" " + p) in bid for p in ADAPTER_PREFIXES["tower"][:2])
    # trait impls of the adapters' private types (`<teos_common::ser::serde_be::deserialize::BEVisitor as Visitor>::visit_str`) count too
    return bool(ks & {"RPC", "MANAGER", "RETRIER"}) or bid.startswith(ADAPTER_PREFIXES["plugin"]) or any(("<" + p) in bid or (" " + p) in bid for p in ADAPTER_PREFIXES["plugin"])


def _const_int(term):
    if isinstance(term, tuple) and term and term[0] == "const" and isinstance(term[1], int) and not isinstance(term[1], bool):
        return term[1]
    return None


def _len_lower_bound(ctx, b, bb, recv):
    """largest n such that `len(recv) >= n` holds on every path to bb (from Eq/Ge/Gt facts), else None"""
    best = None
    recv = og.strip(recv)
    for f in facts_at(ctx, b, bb):
        if f[0] != "truth":
            continue
        for (o, x, y) in rel_of_term(f[1], f[2]):
            x = og.strip(x)
            if not (isinstance(x, tuple) and x and x[0] == "call" and x[1].split("::")[-1] == "len" and x[2]):
                continue
            tgt = x[2][0]
            if tgt != recv and recv not in list(og.walk(tgt)) and tgt not in list(og.walk(recv)):
                continue
            n = _const_int(y)
            if n is None:
                continue
            lb = {"Eq": n, "Ge": n, "Gt": n + 1}.get(o)
            if lb is not None and (best is None or lb > best):
                best = lb
    return best


def _index_bound(term):
    """smallest length that makes the index expression in range: usize c -> c+1, a..b -> b, ..b -> b, a.. -> a"""
    c = _const_int(term)
    if c is not None:
        return c + 1
    if isinstance(term, tuple) and term and term[0] == "agg" and term[1].startswith("std::ops::Range"):
        vals = dict(term[3])
        for k in ("end", "start"):
            if k in vals:
                c = _const_int(vals[k])
                if c is not None:
                    return c + (1 if term[1].endswith("RangeInclusive") or term[1].endswith("RangeToInclusive") else 0) if k == "end" else c
                return None
    return None


def rule_IX(ctx, tier, scope="tower", name=None):
    rr = RuleResult(name or {"tower": "IXt", "plugin": "IXp"}[scope],
                    "no index, slice, byte-offset or explicit panic is reachable with request-, reply- or chain-controlled operands (every site discharged)")
    P = ctx.prog
    roots, kinds = R.root_kinds(P, ctx.cg)
    used = {}
    nbodies = 0
    for bid, b in P.bodies.items():
        if not _in_scope(bid, kinds, scope):
            continue
        nbodies += 1
        fn = bid
        for bb in b.rpo():
            t = b.term(bb)
            if t["k"] == "assert":
                msg = t.get("msg", "")
                if msg.startswith("Overflow") or "Overflow" in msg.split("(")[0]:
                    # additions / multiplications: owned by the arithmetic clauses (SB).  Unsigned SUBTRACTIONS are judged here: with
                    # overflow checks the thread panics (holding its locks), without them the value wraps to something huge
                    for st_ in b.blocks[bb]["s"]:
                        rv_ = st_.get("rv") or {}
                        if st_.get("k") != "assign" or rv_.get("k") != "bin" or not str(rv_.get("op", "")).startswith("Sub"):
                            continue
                        ty_ = b.locals[st_["d"][0]]["ty"] if st_.get("d") else ""
                        if not re.match(r"^\(?(u8|u16|u32|u64|u128|usize)\b", ty_):
                            continue
                        a0, a1 = og.strip(ctx.og.operand(b, rv_["a"])), og.strip(ctx.og.operand(b, rv_["b"]))
                        ca, cb = _const_int(a0), _const_int(a1)
                        if ca is not None and cb is not None and ca >= cb:
                            continue
                        guarded = any(o in ("Ge", "Gt") and og.strip(x) == a0 and og.strip(y) == a1 for f in facts_at(ctx, b, bb) if f[0] == "truth" for (o, x, y) in rel_of_term(f[1], f[2]))
                        if not guarded and cb == 1:
                            # `n -= 1` while `!s.is_char_boundary(n)`: 0 is always a boundary, so n > 0 on this path
                            guarded = any(f[0] == "truth" and f[2] is False and isinstance(og.strip(f[1]), tuple) and og.strip(f[1])[0] == "call" and og.strip(f[1])[1].endswith("is_char_boundary")
                                          and a0 in [og.strip(z) for z in og.strip(f[1])[2]] for f in facts_at(ctx, b, bb))
                        if guarded:
                            rr.ok("%s: subtraction under minuend >= subtrahend" % shortfn(fn))
                            continue
                        key = (re.sub(r"(::\{closure#\d+\})+$", "", fn), "sub")   # a loop body turned into a closure is the same site
                        used[key] = used.get(key, 0) + 1
                        if key in TABLE and used[key] <= TABLE[key][0]:
                            rr.ok("%s: unsigned subtraction [%s]" % (shortfn(fn), TABLE[key][1]))
                        else:
                            rr.fail("unguarded-subtraction:%s" % shortfn(fn), "`%s` computes `%s - %s` on an unsigned type and nothing on the path establishes minuend >= subtrahend: with overflow checks the thread panics while holding its locks, without them the value wraps" % (shortfn(fn), og.show(a0)[:40], og.show(a1)[:40]), where=t.get("line"))
                    continue
                m = re.match(r"BoundsCheck \{ len: const (\d+)_usize, index: (?:copy|move) _(\d+) \}", msg)
                if m:
                    ix = _const_int(ctx.og.local(b, int(m.group(2))))
                    if ix is not None and ix < int(m.group(1)):
                        rr.ok("%s: constant index %d into an array of %s" % (shortfn(fn), ix, m.group(1)), nontrivial=False)
                        continue
                if msg.startswith(("DivisionByZero", "RemainderByZero")):
                    # the divisor: a non-zero constant, or a parameter that every caller binds to a non-zero constant
                    nz = False
                    for st_ in b.blocks[t["t"]]["s"] if t.get("t") is not None else []:
                        if st_.get("k") == "assign" and st_["rv"].get("k") == "bin" and st_["rv"].get("op") in ("Div", "Rem"):
                            dv = og.strip(ctx.og.operand(b, st_["rv"]["b"]))
                            cands = [dv]
                            if isinstance(dv, tuple) and dv and dv[0] == "param":
                                cands = [og.strip(x) for _, x in ctx.og.param_sources(dv[1], dv[2])] or [dv]
                            if cands and all(_const_int(c_) not in (None, 0) for c_ in cands):
                                nz = True
                    if nz:
                        rr.ok("%s: division by a non-zero constant (at every call site)" % shortfn(fn), nontrivial=False)
                        continue
                key = (fn, "assert")
                used[key] = used.get(key, 0) + 1
                if key in TABLE and used[key] <= TABLE[key][0]:
                    rr.ok("%s: %s [%s]" % (shortfn(fn), msg[:40], TABLE[key][1]))
                else:
                    rr.fail("unchecked-assert:%s" % shortfn(fn), "`%s` contains a run-time `%s` whose operands are not constants: an out-of-range value panics the thread" % (shortfn(fn), msg[:60]), where=t.get("line"))
                continue
            if t["k"] != "call":
                continue
            tgt = call_target(t) or ""
            names = call_names(t)
            # ---- explicit panics
            if any(_PANICS.search(n) for n in names):
                if fn in CLOSED:
                    callee, adt = CLOSED[fn]
                    rest = None
                    for f in facts_at(ctx, b, bb):
                        if f[0] in ("variant_in", "variant") and any(c == callee for c in og.calls_in(f[1])):
                            vs = set(f[2]) if f[0] == "variant_in" else {f[2]}
                            rest = vs if rest is None else (rest & vs)
                    cb = P.bodies.get(callee)
                    built = set()
                    if cb is not None:
                        built = {x[2] for x in og.walk(ctx.og.local(cb, 0)) if isinstance(x, tuple) and x and x[0] == "agg" and x[1] == adt}
                        # values replayed from a cache field must have been put there by the callee itself
                        for oid, ob in P.bodies.items():
                            if oid == callee or "::tests::" in oid or not oid.startswith(callee.rsplit("::", 1)[0]):
                                continue
                            for obb, ot in ob.calls():
                                if (call_target(ot) or "").endswith("::insert") and "issued_receipts" in og.show(arg_origin(ctx, ob, obb, 0)):
                                    built.add("<written in %s>" % shortfn(oid))
                    if rest is not None and built and not (built & rest) and not any(x.startswith("<") for x in built):
                        rr.ok("%s: unreachable! arm covers %s; `%s` only builds %s" % (shortfn(fn), sorted(rest), shortfn(callee), sorted(built)),
                              sample={"rule": "IX", "site": shortfn(fn), "class": "explicit panic", "discharge": "closed variant set", "arm": sorted(rest), "built": sorted(built)})
                    else:
                        rr.fail("reachable-unreachable:%s" % shortfn(fn), "the panicking arm in `%s` covers %s but `%s` can return %s: the thread panics while holding its locks" % (shortfn(fn), sorted(rest or []), shortfn(callee), sorted(built & (rest or set())) or sorted(built)), where=t.get("line"))
                    continue
                key = (fn, "panic")
                used[key] = used.get(key, 0) + 1
                if key in TABLE and used[key] <= TABLE[key][0]:
                    rr.ok("%s: explicit panic [%s]" % (shortfn(fn), TABLE[key][1]))
                else:
                    rr.fail("explicit-panic:%s" % shortfn(fn), "`%s` contains an explicit panic (`%s`) on a path reachable from %s, and it is not one of the confirmed sites" % (shortfn(fn), tgt.split("::")[-1], sorted(kinds.get(bid) or ["the HTTP layer"])), where=t.get("line"))
                continue
            # ---- time arithmetic that panics on a negative result (`Duration - Duration`, `Instant - Duration`, ...)
            if any(_TIME_SUB.search(n) for n in names):
                a0, a1 = og.strip(arg_origin(ctx, b, bb, 0)), og.strip(arg_origin(ctx, b, bb, 1))
                guarded = False
                for f in facts_at(ctx, b, bb):
                    if f[0] == "truth":
                        for (o, x, y) in rel_of_term(f[1], f[2]):
                            if o in ("Ge", "Gt") and og.strip(x) == a0 and og.strip(y) == a1:
                                guarded = True
                key = (fn, "time-sub")
                if guarded:
                    rr.ok("%s: time subtraction under minuend >= subtrahend" % shortfn(fn))
                    continue
                used[key] = used.get(key, 0) + 1
                if key in TABLE and used[key] <= TABLE[key][0]:
                    rr.ok("%s: time subtraction [%s]" % (shortfn(fn), TABLE[key][1]))
                else:
                    rr.fail("time-subtraction:%s" % shortfn(fn), "`%s` subtracts times with `%s`, which panics when the result would be negative, and nothing on the path establishes minuend >= subtrahend (`%s` - `%s`): one slow iteration — an RPC that times out, a backlog of blocks — kills the thread" % (shortfn(fn), shortfn(tgt), og.show(a0)[:40], og.show(a1)[:40]), where=t.get("line"))
                continue
            # ---- Index / IndexMut
            if any(_INDEX.search(n) for n in names):
                if any(e in n for n in names for e in _INDEX_EXEMPT):
                    continue
                ix = og.strip(arg_origin(ctx, b, bb, 1))
                if isinstance(ix, tuple) and ix[:2] == ("agg", "std::ops::RangeFull"):
                    rr.ok("%s: `[..]` is the whole value, no bound to respect" % shortfn(fn))
                    continue
                need = _index_bound(arg_origin(ctx, b, bb, 1))
                lb = _len_lower_bound(ctx, b, bb, arg_origin(ctx, b, bb, 0)) if need is not None else None
                if need is not None and lb is not None and lb >= need:
                    rr.ok("%s: index needs len >= %d, guarded by len >= %d on every path" % (shortfn(fn), need, lb),
                          sample={"rule": "IX", "site": shortfn(fn), "class": "index", "discharge": "length guard"})
                    continue
                key = (fn, "index")
                used[key] = used.get(key, 0) + 1
                if key in TABLE and used[key] <= TABLE[key][0]:
                    rr.ok("%s: index [%s]" % (shortfn(fn), TABLE[key][1]))
                else:
                    rr.fail("unguarded-index:%s" % shortfn(fn), "`%s` indexes/slices with `[%s]` and no length check on every path establishes the bound: a shorter value panics the thread" % (shortfn(fn), og.show(arg_origin(ctx, b, bb, 1))[:50]), where=t.get("line"))
                continue
            # ---- positional APIs
            if any(_POSITIONAL.search(n) for n in names):
                op = tgt.split("::")[-1]
                is_str = "String" in tgt or "impl str" in tgt
                if is_str and any(f[0] == "truth" and f[2] is True and any(c.endswith("is_char_boundary") for c in og.calls_in(f[1])) for f in facts_at(ctx, b, bb)):
                    rr.ok("%s: %s after an is_char_boundary test" % (shortfn(fn), op))
                    continue
                key = (fn, op)
                used[key] = used.get(key, 0) + 1
                if key in TABLE and used[key] <= TABLE[key][0]:
                    rr.ok("%s: %s [%s]" % (shortfn(fn), op, TABLE[key][1]))
                else:
                    what = "a byte offset that must fall on a char boundary" if is_str else "a position that must be in range"
                    rr.fail("positional-op:%s:%s" % (shortfn(fn), op), "`%s` calls `%s` with %s; the text/buffer here can carry request or reply bytes, so a multi-byte character or a short value at that position panics the handler" % (shortfn(fn), shortfn(tgt), what), where=t.get("line"))
    # table lines that no longer match anything are stale: the rule would be passing on memory
    for (fn, op), (n, why) in TABLE.items():
        if fn in P.bodies and _in_scope(fn, kinds, scope) and used.get((fn, op), 0) < n:
            rr.ok("table line (%s, %s) now matches %d of %d sites (fewer is fine)" % (shortfn(fn), op, used.get((fn, op), 0), n), nontrivial=False)
    rr.ok("scanned %d bodies in scope `%s`" % (nbodies, scope), nontrivial=False)
    if nbodies < {"tower": 150, "plugin": 80}[scope]:
        rr.fail("floor:bodies-in-scope", "only %d bodies in scope `%s`: roots or adapters no longer resolved" % (nbodies, scope))
    return rr


def rule_IXt(ctx, tier):
    return rule_IX(ctx, tier, scope="tower")


def rule_IXp(ctx, tier):
    return rule_IX(ctx, tier, scope="plugin")
