"""C12 structure: transport errors flag the outage and retry the same call; the monitor sets/clears the flag; 503 gate."""
from .facts import call_names, call_target
from .framework import RuleResult
from . import origin as og
from .rulekit import reach_without_edges, sites, sites_containing, arg_origin, has_call, variant_fact, truth_fact, facts_at, switch_succ_with, always_reaches, shortfn
from .rules_panic import API as PUB

CARRIER = "teos::carrier::Carrier::"
POLL = "teos::chain_monitor::ChainMonitor::<'a, P, C, L>::poll_best_tip::{closure#0}"


def _flag_sites(ctx, b):
    """blocks of b that lower the reachability flag: a call of the helper, or the store `*guard = false` spelled out"""
    out = [bb for bb, t in b.calls() if (call_target(t) or "") == CARRIER + "flag_bitcoind_unreachable"]
    for bb in b.rpo():
        for s_ in b.blocks[bb]["s"]:
            if s_["k"] == "assign" and s_["d"][-1] == "*" and s_["rv"]["k"] == "use" and "k" in s_["rv"]["o"] and s_["rv"]["o"]["k"].get("bool") is False \
                    and "f:bitcoind_reachable" in og.show(ctx.og.local(b, s_["d"][0])):
                out.append(bb)
    return sorted(set(out))


def rule_OUT(ctx, tier):
    rr = RuleResult("OUT", "bitcoind outage handling: wait-until-reachable before every RPC, transport error => flag + retry same call, monitor sets the flag, 503 gate")
    P = ctx.prog
    for fn, rpc in ((CARRIER + "send_transaction", "send_raw_transaction"), (CARRIER + "in_mempool", "get_raw_transaction_info")):
        b = P.require(fn)
        rp = sites_containing(b, rpc)
        before = ctx.pf.called_before(b)
        if not rp:
            rr.anchor_missing(rpc + " in " + fn)
            continue
        for bb in rp:
            if CARRIER + "hang_until_bitcoind_reachable" in before.get(bb, set()):
                rr.ok("%s: waits for reachability before the RPC" % shortfn(fn))
            else:
                rr.fail("rpc-without-wait:%s" % shortfn(fn), "`%s` issues the RPC on a path that has not waited for bitcoind to be reachable" % shortfn(fn), where=b.line_of(bb))
        rec = [x for x in sites(b, fn)]
        flag = _flag_sites(ctx, b)
        if not rec or not flag:
            rr.fail("transport-arm-missing:%s" % shortfn(fn), "`%s` has no flag-unreachable + retry for transport errors (flag sites %d, self calls %d)" % (shortfn(fn), len(flag), len(rec)), where=b.span)
            continue
        WARMUP = (1 << 32) - 28  # rpc_errors::RPC_IN_WARMUP as the switch sees an i32

        def is_warmup(f):
            """`rpcerr.code` is known to be RPC_IN_WARMUP: a match arm (switch value) or a guard / `if` (comparison)"""
            if f[0] == "eq" and f[2] == WARMUP and og.show(f[1]).endswith("f:code"):
                return True
            if f[0] == "truth":
                from .rulekit import rel_of_term, const_of
                for op, l, r in rel_of_term(f[1], f[2]):
                    c = const_of(r)
                    if op == "Eq" and og.show(l).endswith("f:code") and c and c[0] in (-28, WARMUP):
                        return True
            return False

        def warmup_arm(x):
            """the node answered, but only to say it is still starting up (-28): not a verdict on the request either"""
            fs = facts_at(ctx, b, x)
            return any(f[0] == "variant" and f[2] == "Rpc" for f in fs) and any(is_warmup(f) for f in fs)
        for x in flag + rec:
            if variant_fact(ctx, b, x, "Transport") and variant_fact(ctx, b, x, "JsonRpc"):
                rr.ok("%s: %s on the JsonRpc(Transport) arm" % (shortfn(fn), shortfn(call_target(b.term(x)))))
            elif warmup_arm(x):
                rr.ok("%s: %s on the RPC_IN_WARMUP arm" % (shortfn(fn), shortfn(call_target(b.term(x)))))
            else:
                rr.fail("transport-arm-guard:%s" % shortfn(fn), "`%s` is called outside the JsonRpc(Transport(_)) / RPC_IN_WARMUP arms in `%s`" % (shortfn(call_target(b.term(x))), shortfn(fn)), where=b.line_of(x))
        # a node that has just been restarted answers every RPC with -28 until it is ready: that is the tail of an outage the
        # tower may not have noticed (it polls once a minute), not a rejection of the penalty and not "not in the mempool"
        wedges = []
        for sw in b.rpo():
            if b.term(sw)["k"] != "switch":
                continue
            for succ, fs in ctx.pf.switch_facts(b, sw).items():
                if any(is_warmup(f) for f in fs):
                    wedges.append((sw, succ))
        if wedges and all(always_reaches(b, [succ], rec) for sw, succ in wedges) and all(not reach_without_edges(b, succ, r_, {(fl, s_) for fl in flag for s_ in b.succ(fl)}, stop=lambda q: q in flag) for sw, succ in wedges for r_ in rec if r_ in b.reachable(succ)):
            rr.ok("%s: RPC_IN_WARMUP flags the outage and re-issues the request" % shortfn(fn))
        else:
            rr.fail("warmup-is-a-verdict:%s" % shortfn(fn), "`%s` has no arm for RPC_IN_WARMUP (-28) that flags the outage and retries: a bitcoind that was restarted between two polls answers every call with -28 for minutes, which falls into the catch-all arm and becomes %s — the appointment is deleted although the node never judged the penalty" % (shortfn(fn), "`Rejected(UNKNOWN_JSON_RPC_EXCEPTION)`" if fn.endswith("send_transaction") else "'not in the mempool'"), where=b.span)
        for x in rec:
            a = arg_origin(ctx, b, x, 1)
            flagged_first = not reach_without_edges(b, 0, x, {(fl, s_) for fl in flag for s_ in b.succ(fl)}, stop=lambda q: q in flag)
            if a == ("param", b.id, 2) and flagged_first:
                rr.ok("%s: retry re-issues the same request after flagging" % shortfn(fn), sample={"rule": "OUT", "function": fn, "transport arm": "flag_bitcoind_unreachable(); self(%s)" % og.show(a)})
            else:
                rr.fail("retry-shape:%s" % shortfn(fn), "the transport-error retry in `%s` does not re-issue the same argument after flagging the outage" % shortfn(fn), where=b.line_of(x))
        # the transport arm cannot produce a verdict of its own: from the arm, every path goes through the self call
        for sw, succ in switch_succ_with(ctx, b, "variant", "Transport"):
            if always_reaches(b, [succ], rec):
                rr.ok("%s: transport arm always retries" % shortfn(fn))
            else:
                rr.fail("transport-verdict:%s" % shortfn(fn), "a transport error in `%s` can yield a verdict (e.g. Rejected / not-in-mempool) instead of a retry: the response would be dropped" % shortfn(fn), where=b.line_of(sw))
    # no Rejected status is constructed on the Transport arm
    st = P.require(CARRIER + "send_transaction")
    for bb in st.rpo():
        for s in st.blocks[bb]["s"]:
            if s["k"] == "assign" and s["rv"]["k"] == "agg" and s["rv"].get("variant") == "Rejected":
                if variant_fact(ctx, st, bb, "Transport"):
                    rr.fail("rejected-on-transport", "ConfirmationStatus::Rejected is built on the transport-error arm", where=st.line_of(bb))
    # a poll is never abandoned half way: the future of poll_best_tip is awaited directly, not raced against a timer or
    # a signal (the SPV client records its progress only when the whole poll returns; a cancelled poll discards it, sets
    # no reachability flag and re-delivers the same blocks on the next round)
    mc = P.bodies.get("teos::chain_monitor::ChainMonitor::<'a, P, C, L>::monitor_chain::{closure#0}")
    if mc is None:
        rr.anchor_missing("ChainMonitor::monitor_chain")
    else:
        polls = [bb for bb, t in mc.calls() if (call_target(t) or "").endswith("::poll_best_tip")]
        if not polls:
            rr.fail("monitor-no-poll", "monitor_chain does not call poll_best_tip", where=mc.span)
        for pb in polls:
            me = og.strip(ctx.og.operand(mc, {"m": mc.term(pb)["dest"]}))
            users = []
            for bb, t in mc.calls():
                if bb == pb:
                    continue
                for i in range(len(t.get("args", []))):
                    a = og.strip(arg_origin(ctx, mc, bb, i))
                    if a == me or (isinstance(a, tuple) and me in list(og.walk(a)) and not (call_target(t) or "").endswith(("Pin::<Ptr>::new_unchecked", "get_context", "Future::poll"))):
                        users.append((bb, call_target(t) or "?"))
                        break
            direct = [u for u in users if u[1].endswith("IntoFuture>::into_future")]
            own = (call_target(mc.term(pb)) or "") + "::{closure#0}"  # resuming the poll's own coroutine = polling it
            other = [u for u in users if not u[1].endswith(("IntoFuture>::into_future", "Future>::poll", "Pin::<Ptr>::new_unchecked", "Future::poll")) and u[1] != own]
            if direct and not other:
                rr.ok("monitor_chain awaits poll_best_tip to completion (not raced or wrapped)", sample={"rule": "OUT", "poll future consumed by": [shortfn(u[1]) for u in users]})
            else:
                rr.fail("poll-can-be-cancelled", "the future of `poll_best_tip` is handed to `%s` instead of being awaited directly: a poll that outlasts it is dropped half way — its progress is discarded, no reachability flag is set and the same blocks are delivered again" % (", ".join(sorted({shortfn(u[1]) for u in other})) or "nothing"), where=mc.line_of(pb))
    # the monitor keys the outage flag on the error KIND (transient = transport); the three block-source adapter methods must
    # hand on the RPC client's own classification: each delegates to the same-named RpcClient method and builds no error itself
    fam = {}
    for bid, ab in P.bodies.items():
        if bid.startswith("<&teos::bitcoin_cli::BitcoindClient<'_> as lightning_block_sync::BlockSource>::") and "{closure" in bid:
            fam[bid.split("BlockSource>::")[1].split("::")[0]] = ab
    if set(fam) != {"get_header", "get_block", "get_best_block"}:
        rr.anchor_missing("BlockSource impl for &BitcoindClient (get_header, get_block, get_best_block)")
    for m, ab in sorted(fam.items()):
        callees = {call_target(t) or "" for bb, t in ab.calls()}
        delegates = "<lightning_block_sync::rpc::RpcClient as lightning_block_sync::BlockSource>::" + m in callees
        builds = sorted(c for c in callees if "BlockSourceError" in c and c.split("::")[-1] in ("persistent", "transient"))
        if delegates and not builds:
            rr.ok("block source %s: delegates to RpcClient::%s, error kind untouched" % (m, m), nontrivial=False)
        else:
            rr.fail("block-source-error-kind:%s" % m, "the block-source adapter `%s` %s: a connection error reaching ChainMonitor::poll_best_tip with the wrong kind is only logged — the outage is never flagged, the API keeps answering and nobody waits" % (
                m, ("re-labels errors with " + ", ".join(shortfn(c) for c in builds)) if builds else "does not delegate to the RPC client's own method"), where=ab.span)
    h = P.require(CARRIER + "hang_until_bitcoind_reachable")
    if sites_containing(h, "Condvar", "wait"):
        rr.ok("hang_until_bitcoind_reachable waits on the condvar")
    else:
        rr.fail("no-wait", "hang_until_bitcoind_reachable does not wait", where=h.span)
    # the Carrier's own writes of the flag are all `false` (it may only lower it; raising it is the monitor's job)
    vals = set()
    for fid in [x for x in P.bodies if x.startswith(CARRIER) and "::tests::" not in x]:
        fb = P.bodies[fid]
        for bb in fb.rpo():
            for s_ in fb.blocks[bb]["s"]:
                if s_["k"] == "assign" and s_["d"][-1] == "*" and s_["rv"]["k"] == "use" and "k" in s_["rv"]["o"] and "bool" in s_["rv"]["o"]["k"] and "f:bitcoind_reachable" in og.show(ctx.og.local(fb, s_["d"][0])):
                    vals.add(s_["rv"]["o"]["k"]["bool"])
    if vals == {False}:
        rr.ok("the Carrier only ever lowers the reachability flag")
    else:
        rr.fail("flag-value", "the Carrier stores %s into the reachability flag" % sorted(vals), where=P.bodies[CARRIER + "send_transaction"].span)
    # monitor
    pb = P.require(POLL)
    writes = []
    for bb in pb.rpo():
        for s in pb.blocks[bb]["s"]:
            if s["k"] == "assign" and s["d"][-1] == "*" and s["rv"]["k"] == "use" and "k" in s["rv"]["o"] and "bool" in s["rv"]["o"]["k"]:
                writes.append((bb, s["rv"]["o"]["k"]["bool"]))
    ok_true = [bb for bb, v in writes if v is True and variant_fact(ctx, pb, bb, "Ok", "SpvClient", "poll_best_tip")]
    ok_false = [bb for bb, v in writes if v is False and variant_fact(ctx, pb, bb, "Transient")]
    if ok_true and ok_false and len(writes) == 2:
        rr.ok("poll: Ok => reachable := true; Transient error => reachable := false", sample={"rule": "OUT", "flag writes": [(pb.line_of(bb), v) for bb, v in writes]})
    else:
        rr.fail("monitor-flag-writes", "poll_best_tip flag writes %s do not match {Ok arm: true, Transient arm: false}" % [(pb.line_of(bb), v) for bb, v in writes], where=pb.span)
    nt = sites_containing(pb, "Condvar", "notify_all")
    if nt and all(variant_fact(ctx, pb, x, "Ok", "SpvClient", "poll_best_tip") for x in nt):
        for sw, succ in switch_succ_with(ctx, pb, "variant", "Ok", "SpvClient", "poll_best_tip"):
            if always_reaches(pb, [succ], nt):
                rr.ok("poll Ok always notifies waiters")
            else:
                rr.fail("ok-without-notify", "a successful poll can return without notify_all: waiters stay blocked", where=pb.line_of(sw))
    else:
        rr.fail("notify-shape", "notify_all missing or not on the Ok arm", where=pb.span)
    # 503 gate
    for m in ("register", "add_appointment", "get_appointment", "get_subscription_info"):
        hb = P.require(PUB + m + "::{closure#0}")
        cs = sites(hb, "teos::api::internal::InternalAPI::check_service_unavailable")
        if not cs:
            rr.fail("no-503-gate:%s" % m, "public handler `%s` does not check bitcoind reachability" % m, where=hb.span)
            continue
        bad = None
        for bb, t in hb.calls():
            tgt = call_target(t) or ""
            if tgt.startswith("teos::watcher::Watcher::"):
                if not variant_fact(ctx, hb, bb, "Continue", "check_service_unavailable"):
                    bad = (bb, tgt)
        # ... and once the Watcher has done the work, the handler answers with it: no error answer (a second gate, a late check)
        # on a path where the state-changing Watcher call has already returned Ok — a non-200 reply must leave the state unchanged
        if m in ("register", "add_appointment"):
            for sw, succ in switch_succ_with(ctx, hb, "variant", "Ok", "watcher::Watcher::" + m):
                late = []
                for x in hb.reachable(succ):
                    t_ = hb.term(x)
                    if t_["k"] == "call" and ((call_target(t_) or "").endswith("::from_residual") or (call_target(t_) or "").endswith("tonic::Status::new") or (call_target(t_) or "").endswith("check_service_unavailable")):
                        late.append(x)
                    for st_ in hb.blocks[x]["s"]:
                        if st_["k"] == "assign" and st_["d"] == [0] and st_["rv"]["k"] == "agg" and st_["rv"].get("variant") == "Err":
                            late.append(x)
                if late:
                    rr.fail("error-after-work:%s" % m, "public handler `%s` can answer with an error after `Watcher::%s` succeeded (%s): the user is told the request failed while the slot is charged / the appointment stored / the subscription extended, and the signed receipt is thrown away" % (m, m, (call_target(hb.term(late[0])) or "Err(..)").split("::")[-1]), where=hb.line_of(late[0]))
                else:
                    rr.ok("%s: after the Watcher succeeded every path answers Ok" % m)
        if bad:
            rr.fail("work-before-503-gate:%s" % m, "`%s` calls `%s` on a path where check_service_unavailable has not succeeded: new work is taken on during an outage" % (m, bad[1]), where=hb.line_of(bad[0]))
        else:
            rr.ok("%s: Watcher entered only after the 503 gate" % m)
    c = P.require("teos::api::internal::InternalAPI::check_service_unavailable")
    # the gate lets a request through only when it READ the flag and found it true ("could not look" is not "reachable")
    gate_oks = [bb for bb in c.rpo() for s_ in c.blocks[bb]["s"] if s_["k"] == "assign" and s_["d"] == [0] and s_["rv"]["k"] == "agg" and s_["rv"].get("variant") == "Ok"]

    def flag_true(bb):
        return any(f[0] == "truth" and f[2] is True and "f:bitcoind_reachable" in og.show(f[1]) and not has_call(f[1], "is_ok") and not has_call(f[1], "is_err") for f in facts_at(ctx, c, bb))
    if gate_oks and all(flag_true(bb) for bb in gate_oks):
        rr.ok("503 gate: Ok only on a path that read the reachability flag as true", sample={"rule": "OUT", "gate": "Ok <= *bitcoind_reachable.lock() == true"})
    else:
        rr.fail("gate-open-without-reading", "`check_service_unavailable` can answer Ok on a path that did not find the reachability flag true (e.g. a failed try_lock treated as reachable): requests are taken on during a noticed outage", where=c.span)
    errs = [bb for bb in c.rpo() for s in c.blocks[bb]["s"] if s["k"] == "assign" and s["d"] == [0] and s["rv"]["k"] == "agg" and s["rv"].get("variant") == "Err"]
    codes = [arg_origin(ctx, c, x, 0) for x in sites(c, "tonic::Status::new")]
    if errs and codes and all(k[0] == "agg" and k[2] == "Unavailable" for k in codes):
        rr.ok("gate answers Code::Unavailable")
    else:
        rr.fail("gate-code", "check_service_unavailable does not answer Code::Unavailable", where=c.span)
    rr.require_floor(19, "OUT instances")
    return rr
