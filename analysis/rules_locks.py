"""Lock rules: LK0 self-deadlock, LK1 lock-order cycles, LK2 condvar wait discipline, AT1-AT3 atomic spans."""
from collections import defaultdict

from .facts import call_names, call_target
from .framework import RuleResult
from . import roots as R
from . import origin as og

DELETE_APPOINTMENTS = "teos::gatekeeper::Gatekeeper::delete_appointments"
C = R.CLASSES


def _prune_refund(ctx):
    """delete_appointments(_, false) never takes the users lock (the `if refund` arm is dead for a constant
    false argument): drop `users` from the callee summary at such call sites."""
    def prune(bid, bb, callee):
        if callee != DELETE_APPOINTMENTS:
            return set()
        b = ctx.prog.bodies[bid]
        t = b.term(bb)
        if len(t.get("args", [])) >= 3:
            o = ctx.og.operand(b, t["args"][2])
            if o[0] == "const" and o[1] is False:
                return {C["users"]}
        return set()
    return prune


def _edges(ctx):
    if not hasattr(ctx, "_lk_edges"):
        ctx._lk_edges = ctx.locks.order_edges(prune=_prune_refund(ctx))
    return ctx._lk_edges


def rule_lock_classes(ctx, tier):
    rr = RuleResult("LK-classes", "every Mutex<T> locked in the workspace is a known lock class")
    known = set(C.values())
    for c in ctx.locks.classes():
        if c in known:
            rr.ok("class:" + R.short(c), nontrivial=False)
        else:
            rr.fail("unknown-class:" + c, "lock class `%s` is not in the confirmed table (analysis/roots.py): the lock-order argument does not cover it" % c)
    if ctx.locks.returns_guard:
        for f in ctx.locks.returns_guard:
            rr.fail("returns-guard:" + f, "function returns a lock guard; guard regions across calls are not modelled")
    rr.require_floor(10, "lock classes")
    return rr


def rule_LK0(ctx, tier):
    rr = RuleResult("LK0", "no lock class is re-acquired while already held (std Mutex is not re-entrant)")
    edges = _edges(ctx)
    for c in ctx.locks.classes():
        ws = edges.get((c, c), [])
        if R.short(c) in R.PER_INSTANCE and ws:
            rr.notes.append("self-nesting of per-instance class %s not judged" % R.short(c))
            continue
        if not ws:
            rr.ok("noself:" + R.short(c), sample={"rule": "LK0", "class": R.short(c), "edges_into_itself": 0})
        else:
            holders = sorted({w["holder"] for w in ws})
            for h in holders:
                w = [x for x in ws if x["holder"] == h][0]
                b = ctx.prog.bodies[h]
                rr.fail("self:%s@%s" % (R.short(c), h),
                        "`%s` is locked again while a guard of the same mutex is held: %s" % (R.short(c), " > ".join(x[0] for x in w["chain"])),
                        where=b.line_of(w["bb"]), detail={"chain": w["chain"]})
    rr.require_floor(9, "LK0 instances")
    return rr


def _edge_kinds(ctx):
    roots, kinds = R.root_kinds(ctx.prog, ctx.cg)
    edges = _edges(ctx)
    out = {}
    for (a, b), ws in edges.items():
        if a == b:
            continue
        per = defaultdict(set)
        for w in ws:
            for k in kinds.get(w["holder"], set()):
                per[k].add(w["holder"])
        out[(a, b)] = per
    return roots, out


def _cycles(adj):
    """simple cycles of a small digraph (each reported once, rotated to start at its smallest node)"""
    out = set()
    nodes = sorted(adj)

    def dfs(start, cur, path, seen):
        for n in adj.get(cur, ()):
            if n == start:
                out.add(tuple(path))
            elif n not in seen and n > start and len(path) < 6:
                dfs(start, n, path + [n], seen | {n})
    for s in nodes:
        dfs(s, s, [s], {s})
    return sorted(out)


def rule_LK1(ctx, tier):
    rr = RuleResult("LK1", "the lock-order graph has no cycle whose edges can be contributed by two concurrently runnable threads")
    roots, ek = _edge_kinds(ctx)
    for k, rs in roots.items():
        if not rs:
            rr.anchor_missing("thread root " + k)
    adj = defaultdict(set)
    for (a, b), per in ek.items():
        if per:
            adj[a].add(b)
    cycles = _cycles(adj)
    n_edges = 0
    for (a, b), per in sorted(ek.items()):
        if per:
            n_edges += 1
            rr.ok("edge:%s->%s" % (R.short(a), R.short(b)),
                  sample={"rule": "LK1", "edge": "%s -> %s" % (R.short(a), R.short(b)),
                          "threads": {k: sorted(v) for k, v in per.items()}})
    for cyc in cycles:
        es = [(cyc[i], cyc[(i + 1) % len(cyc)]) for i in range(len(cyc))]
        bad = None
        for i in range(len(es)):
            for j in range(len(es)):
                if i == j:
                    continue
                for k1 in ek[es[i]]:
                    for k2 in ek[es[j]]:
                        if R.concurrent(k1, k2):
                            bad = (es[i], k1, es[j], k2)
        desc = ";".join("%s->%s@%s" % (R.short(a), R.short(b), ",".join(sorted(h.split("::", 1)[-1] for hs in ek[(a, b)].values() for h in hs))) for a, b in es)
        if bad:
            (e1, k1, e2, k2) = bad
            h1 = sorted(ek[e1][k1])[0]
            rr.fail("cycle[%s]" % desc,
                    "lock-order cycle %s: a %s thread can hold %s and wait for %s while a %s thread holds %s and waits for %s" % (
                        " -> ".join(R.short(x) for x in cyc + (cyc[0],)), k1, R.short(e1[0]), R.short(e1[1]), k2, R.short(e2[0]), R.short(e2[1])),
                    where=ctx.prog.bodies[h1].span,
                    detail={"edges": {"%s->%s" % (R.short(a), R.short(b)): {k: sorted(v) for k, v in ek[(a, b)].items()} for a, b in es}})
        else:
            rr.ok("cycle-sequential[%s]" % desc)
    rr.notes.append("%d order edges, %d cycles examined" % (n_edges, len(cycles)))
    rr.require_floor(14, "lock-order edges")
    return rr


def _held_on_entry(ctx):
    """body id -> classes that may be held by the calling thread when the body runs (fixed point over callers)"""
    if hasattr(ctx, "_held_entry"):
        return ctx._held_entry
    held = defaultdict(set)
    changed = True
    while changed:
        changed = False
        for bid in ctx.prog.bodies:
            bl = ctx.locks.locks(bid)
            for callee, bb, kind in ctx.cg.callees(bid):
                h = set(held[bid])
                if bb is not None:
                    h |= {c for c in bl.classes_at_term(bb)}
                else:
                    # closure constructed here: may run anywhere in this body
                    pass
                if not h <= held[callee]:
                    held[callee] |= h
                    changed = True
    ctx._held_entry = held
    return held


def rule_LK2(ctx, tier):
    rr = RuleResult("LK2", "condvar wait discipline: a waiter is never the only thread able to wake itself, and holds nothing its waker needs")
    L = ctx.locks
    if not L.wait_sites:
        rr.anchor_missing("Condvar::wait site")
    if not L.notify_sites:
        rr.anchor_missing("Condvar::notify site")
    ma = L.may_acquire()
    held_entry = _held_on_entry(ctx)
    for wb, wbb, wheld, passed in L.wait_sites:
        W = ctx.prog.bodies[wb]
        for nb, nbb in L.notify_sites:
            N = ctx.prog.bodies[nb]
            # calls of the notifier from which the notify site is still reachable (pre-notify part)
            pre = []
            for bb, t in N.calls():
                if bb != nbb and nbb in N.reachable(bb):
                    pre.append((bb, t))
            # (a) self-wait
            offenders = []
            pre_acquire = {}
            for bb, t in pre:
                for callee, cbb, kind in ctx.cg.callees(nb):
                    if cbb != bb:
                        continue
                    reach = ctx.cg.reach([callee])
                    if wb in reach:
                        offenders.append((bb, callee))
                    for cls, chain in ma.get(callee, {}).items():
                        pre_acquire.setdefault(cls, [(nb, bb)] + chain)
            if offenders:
                bb, callee = offenders[0]
                path = ctx.cg.path(callee, wb) or []
                rr.fail("selfwait:%s<-%s" % (wb, nb),
                        "`%s` waits on the condvar that only `%s` notifies, and is itself reachable from that function before the notify (%s): the chain thread can wait for a wake-up only it could deliver" % (
                            wb.split("::", 1)[-1], nb.split("::", 1)[-1], " > ".join(p.split("::", 1)[-1] for p in [nb] + path)),
                        where=W.line_of(wbb), detail={"path": [nb] + path})
            else:
                rr.ok("selfwait:%s<-%s" % (wb, nb))
            # (b) waiter holds what the waker needs
            waiter_holds = set(wheld) | held_entry.get(wb, set())
            clash = sorted(R.short(c) for c in waiter_holds if c in pre_acquire and c not in passed)
            if clash:
                rr.fail("waiter-holds:%s<-%s:%s" % (wb, nb, ",".join(clash)),
                        "a thread waiting in `%s` may hold {%s}, which `%s` must acquire before it reaches the notify: the waker blocks on the waiter" % (
                            wb.split("::", 1)[-1], ", ".join(clash), nb.split("::", 1)[-1]),
                        where=W.line_of(wbb),
                        detail={"held_by_waiter": sorted(R.short(c) for c in waiter_holds),
                                "needed_by_waker": {R.short(c): [x[0] for x in pre_acquire[c]] for c in pre_acquire if R.short(c) in clash}})
            else:
                rr.ok("waiter-holds:%s<-%s" % (wb, nb))
    # every notifier sets the flag before notifying; every waiter re-checks the predicate in a loop
    for wb, wbb, wheld, passed in L.wait_sites:
        W = ctx.prog.bodies[wb]
        in_loop = wbb in W.reachable(W.succ(wbb)[0]) if W.succ(wbb) else False
        if in_loop:
            rr.ok("wait-in-loop:" + wb, sample={"rule": "LK2", "wait_site": wb, "re-checks predicate in a loop": True})
        else:
            rr.fail("wait-not-in-loop:" + wb, "Condvar::wait result is not re-checked in a loop (spurious wake-ups / missed predicate)", where=W.line_of(wbb))
    rr.require_floor(2, "LK2 instances")
    return rr


# ---------------------------------------------------------------------------------------------------
ADD_APPOINTMENT = "teos::watcher::Watcher::add_appointment"
STORE_APPT = "teos::watcher::Watcher::store_appointment"
STORE_TRIG = "teos::watcher::Watcher::store_triggered_appointment"
W_FBC = "<teos::watcher::Watcher as lightning::chain::Listen>::filtered_block_connected"
TXINDEX_GET = "teos::tx_index::TxIndex::<K, V>::get"
TXINDEX_UPDATE = "teos::tx_index::TxIndex::<K, V>::update"
DBM_STORE = {"teos::dbm::DBM::store_appointment", "teos::dbm::DBM::update_appointment"}
HANDLE_BREACH = "teos::responder::Responder::handle_breach"
BATCH_CHECK = "teos::dbm::DBM::batch_check_locators_exist"
ADD_UPDATE_APPT = "teos::gatekeeper::Gatekeeper::add_update_appointment"
ADD_UPDATE_USER = "teos::gatekeeper::Gatekeeper::add_update_user"


def _reaches(ctx, callee_id, targets):
    return ctx.pf.reaches_call(callee_id, lambda names: bool(names & targets))


def rule_AT1(ctx, tier):
    rr = RuleResult("AT1", "cache look-up and store are one critical section; the block thread updates the cache before it queries the DB")
    P = ctx.prog
    b = P.require(ADD_APPOINTMENT)
    bl = ctx.locks.locks(b.id)
    gets = [bb for bb, t in b.calls() if TXINDEX_GET in call_names(t) and C["locator_cache"] in bl.classes_at_term(bb)]
    if not gets:
        rr.fail("no-cache-lookup", "Watcher::add_appointment performs no TxIndex::get under the locator-cache lock", where=b.span)
        return rr
    stores = []
    for bb, t in b.calls():
        for callee, cbb, kind in ctx.cg.callees(b.id):
            if cbb == bb and (callee in DBM_STORE or callee == HANDLE_BREACH or _reaches(ctx, callee, DBM_STORE | {HANDLE_BREACH})):
                stores.append((bb, callee))
        if call_names(t) & (DBM_STORE | {HANDLE_BREACH}):
            stores.append((bb, call_target(t)))
    stores = sorted(set(stores))
    for bb, callee in stores:
        ok = False
        for g in gets:
            if bb in b.reachable(g) and C["locator_cache"] in ctx.locks.held_span(b.id, g, [bb]):
                ok = True
        # stores that do not come after the look-up at all are charged separately
        after = any(bb in b.reachable(g) for g in gets)
        if not after:
            rr.fail("store-before-lookup:%s" % callee, "`%s` is called in add_appointment on a path that has not looked the locator up in the cache" % callee, where=b.line_of(bb))
        elif ok:
            rr.ok("span:get..%s" % callee, sample={"rule": "AT1", "from": "TxIndex::get (locator cache guard)", "to": callee, "guard held continuously": True})
        else:
            rr.fail("span-broken:get..%s" % callee,
                    "the locator-cache guard taken for the look-up is not held when `%s` is called: a block connected in between updates the cache and queries the DB before this appointment is stored, so its breach is never noticed" % callee.split("::", 1)[-1],
                    where=b.line_of(bb))
    # "already triggered" is decided inside the same critical section: a version of the appointment that passed the check
    # before another one was handed to the Responder goes on to the cache, finds the dispute, and sends a second, conflicting
    # penalty; when that bounces the appointment is deleted and the live tracker of the first cascades with it
    ht = [bb for bb, t in b.calls() if (call_target(t) or "").endswith("Responder::has_tracker")]
    if not ht:
        rr.fail("no-tracker-check", "Watcher::add_appointment does not ask the Responder whether the appointment already has a tracker", where=b.span)
    for bb in ht:
        if C["locator_cache"] in bl.classes_at_term(bb):
            rr.ok("has_tracker consulted under the locator-cache lock")
        else:
            rr.fail("tracker-check-outside-cache-lock", "`Responder::has_tracker` is consulted in add_appointment before the locator-cache lock is taken: a second version of the appointment arriving while the first is being answered (by the block thread, or by another request that found the dispute in the cache) passes the check, sends a conflicting penalty, and when that is rejected `delete_appointments` removes the appointment together with the tracker of the penalty that was broadcast", where=b.line_of(bb))
    # ... and the Responder does not answer the same appointment twice: handle_breach looks the uuid up (under the locks it holds
    # for the whole hand-over, AT6) before anything is sent
    hb = P.bodies.get(HANDLE_BREACH)
    if hb is not None:
        sends = [x for x, t in hb.calls() if (call_target(t) or "").endswith("Carrier::send_transaction")]
        looks = [x for x, t in hb.calls() if (call_target(t) or "").endswith(("DBM::load_tracker", "Responder::has_tracker", "DBM::tracker_exists"))]
        hbb = ctx.pf.called_before(hb)
        if sends and all(any(n.endswith(("DBM::load_tracker", "Responder::has_tracker", "DBM::tracker_exists")) for n in hbb.get(x, set())) for x in sends):
            rr.ok("handle_breach looks for an existing tracker before it sends")
        else:
            rr.fail("second-response-sent", "`Responder::handle_breach` never looks the uuid up before sending: an appointment that already has a tracker (the block thread answered it while a re-submission was waiting for the locks) is answered a second time with whatever penalty the newer blob decrypts to", where=hb.span)
    # both arms of the look-up store something
    if not any(c == STORE_APPT or c in DBM_STORE for _, c in stores):
        rr.fail("no-plain-store", "no store call after the cache look-up on the not-triggered arm", where=b.span)
    # block thread: update (under the cache lock) strictly before the DB intersection
    f = P.require(W_FBC)
    before = ctx.pf.called_before(f)
    sites = [bb for bb, t in f.calls() for callee, cbb, k in ctx.cg.callees(f.id)
             if cbb == bb and (callee == BATCH_CHECK or _reaches(ctx, callee, {BATCH_CHECK}))]
    if not sites:
        rr.fail("no-db-intersection", "Watcher::filtered_block_connected never reaches DBM::batch_check_locators_exist", where=f.span)
    for bb in sorted(set(sites)):
        if TXINDEX_UPDATE in before.get(bb, set()):
            rr.ok("order:update<batch_check@%d" % bb, sample={"rule": "AT1", "in": "Watcher::filtered_block_connected", "TxIndex::update precedes": "get_breaches -> batch_check_locators_exist"})
        else:
            rr.fail("order:db-query-before-cache-update", "the DB is queried for this block's locators on a path where the locator cache has not yet been updated with the block", where=f.line_of(bb))
    upd = [bb for bb, t in f.calls() if TXINDEX_UPDATE in call_names(t)]
    for bb in upd:
        if C["locator_cache"] in ctx.locks.locks(f.id).classes_at_term(bb):
            rr.ok("update-under-lock@%d" % bb)
        else:
            rr.fail("update-not-under-lock", "TxIndex::update not under the locator-cache lock", where=f.line_of(bb))
    rr.require_floor(4, "AT1 instances")
    return rr


def _single_section(ctx, rr, fn, cls, must_cover, label):
    P = ctx.prog
    b = P.require(fn)
    bl = ctx.locks.locks(b.id)
    acq = [(bb, c) for (bid, bb, c, kind, held) in ctx.locks.acquire_sites if bid == b.id and c == cls]
    if len(acq) != 1:
        rr.fail("%s:sections=%d" % (label, len(acq)),
                "`%s` takes the %s lock %d times: the read-modify-write is split over several critical sections" % (fn.split("::", 1)[-1], R.short(cls), len(acq)),
                where=b.span)
        return
    sites = [(bb, call_target(t)) for bb, t in b.calls() if call_names(t) & must_cover]
    if not sites:
        rr.fail("%s:no-sites" % label, "none of %s called in %s" % (sorted(must_cover), fn), where=b.span)
        return
    for bb, tgt in sites:
        if cls in bl.classes_at_term(bb):
            rr.ok("%s:%s under %s" % (label, tgt, R.short(cls)),
                  sample={"rule": rr.rule, "function": fn, "call": tgt, "under": R.short(cls)})
        else:
            rr.fail("%s:%s-outside" % (label, tgt), "`%s` is called in `%s` without the %s guard" % (tgt, fn.split("::", 1)[-1], R.short(cls)), where=b.line_of(bb))
    first = min(bb for bb, _ in sites)
    span = ctx.locks.held_span(b.id, sites[0][0], [bb for bb, _ in sites[1:]]) if len(sites) > 1 else {cls}
    if cls not in span:
        rr.fail("%s:span" % label, "the %s guard is released and re-taken between %s" % (R.short(cls), [t for _, t in sites]), where=b.span)
    # field writes of the protected map happen under the guard too (writes through the guard local)


def rule_AT2(ctx, tier):
    rr = RuleResult("AT2", "each balance update is one critical section")
    _single_section(ctx, rr, ADD_UPDATE_APPT, C["users"], {"teos::dbm::DBM::get_appointment_length", "teos::dbm::DBM::update_user"}, "charge")
    _single_section(ctx, rr, ADD_UPDATE_USER, C["users"], {"teos::dbm::DBM::update_user", "teos::dbm::DBM::store_user"}, "register")
    _single_section(ctx, rr, DELETE_APPOINTMENTS, C["DBM"],
                    {"teos::dbm::DBM::get_appointment_user_and_length", "teos::dbm::DBM::batch_remove_appointments", "teos::dbm::DBM::remove_appointment"}, "refund")
    # refund: users guard covers the loop that adds slots back
    b = ctx.prog.require(DELETE_APPOINTMENTS)
    bl = ctx.locks.locks(b.id)
    for bb, t in b.calls():
        if "teos::dbm::DBM::get_appointment_user_and_length" in call_names(t):
            if C["users"] in bl.classes_at_term(bb):
                rr.ok("refund:loop under users")
            else:
                rr.fail("refund:loop-without-users", "slots are refunded without the users guard", where=b.line_of(bb))
    # refund and deletion are ONE durable step: the only DB writes of delete_appointments are the transactional batch
    # delete (which also persists the refunded balances) or, when nothing was refunded, the single-row delete
    from . import sql as _sql
    from .rulekit import truth_fact, shortfn
    writers = []
    for bb, t in b.calls():
        tgt = call_target(t) or ""
        if tgt.startswith("teos::dbm::DBM::") and tgt in ctx.prog.bodies:
            kinds = {_sql.classify(st)["kind"] for fid in ctx.prog.family(tgt) for _, st in _sql.body_sql(ctx.prog.bodies[fid])}
            if kinds & {"insert", "update", "delete"}:
                writers.append((bb, tgt))
    allowed = {"teos::dbm::DBM::batch_remove_appointments", "teos::dbm::DBM::remove_appointment"}
    for bb, tgt in writers:
        if tgt in allowed:
            rr.ok("delete_appointments writes through %s" % shortfn(tgt))
        else:
            rr.fail("refund:extra-db-write:%s" % shortfn(tgt), "`Gatekeeper::delete_appointments` also writes the database through `%s`, outside the transaction that deletes the appointments: a crash between the two leaves slots refunded for appointments that still exist (or deleted without refund)" % shortfn(tgt), where=b.line_of(bb))
    for bb, tgt in writers:
        if tgt.endswith("::remove_appointment"):
            if truth_fact(ctx, b, bb, "is_empty") is True:
                rr.ok("single-row delete only when no balance changed")
            else:
                rr.fail("refund:non-transactional-delete", "the non-transactional single-row delete is used on a path where users may have been refunded (their new balance is then not persisted atomically with the deletion)", where=b.line_of(bb))
    rr.require_floor(9, "AT2 instances")
    return rr


def rule_AT3(ctx, tier):
    rr = RuleResult("AT3", "slot charge and appointment store are atomic w.r.t. a concurrent identical submission")
    b = ctx.prog.require(ADD_APPOINTMENT)
    charge = [bb for bb, t in b.calls() if ADD_UPDATE_APPT in call_names(t)]
    stores = [bb for bb, t in b.calls() if call_names(t) & {STORE_APPT, STORE_TRIG}]
    if not charge or not stores:
        rr.anchor_missing("add_update_appointment / store_* calls in add_appointment")
        return rr
    for c in charge:
        span = ctx.locks.held_span(b.id, c, stores)
        at_charge = ctx.locks.locks(b.id).classes_at_term(c)
        if span:
            rr.ok("charge..store under %s" % sorted(R.short(x) for x in span))
        else:
            rr.fail("charge-store-not-atomic",
                    "no lock is held from `Gatekeeper::add_update_appointment` to the store call in `Watcher::add_appointment` (held at charge: %s): two concurrent submissions of the same new appointment both see 'not stored yet' and are both charged" % sorted(R.short(x) for x in at_charge),
                    where=b.line_of(c))
    rr.require_floor(1, "AT3 instances")
    return rr


def rule_CBS(ctx, tier):
    rr = RuleResult("CBS", "slots are charged before the appointment is stored (a crash in between costs the in-flight request's slots, never grants any)")
    b = ctx.prog.require(ADD_APPOINTMENT)
    stores = [bb for bb, t in b.calls() if call_names(t) & {STORE_APPT, STORE_TRIG}]
    if not stores:
        rr.anchor_missing("store_* calls in add_appointment")
        return rr
    before = ctx.pf.called_before(b)
    for s in stores:
        if ADD_UPDATE_APPT in before.get(s, set()):
            rr.ok("charge-before-store@%s" % call_target(b.term(s)), sample={"rule": "CBS", "Gatekeeper::add_update_appointment precedes": call_target(b.term(s))})
        else:
            rr.fail("store-before-charge:%s" % call_target(b.term(s)), "an appointment can be stored on a path that has not charged the slots", where=b.line_of(s))
    # and the charge succeeded (Ok) on that path
    from .rulekit import variant_fact
    for s in stores:
        if variant_fact(ctx, b, s, "Continue", "Gatekeeper::add_update_appointment"):
            rr.ok("store only if the charge succeeded@%s" % call_target(b.term(s)))
        else:
            rr.fail("store-without-successful-charge:%s" % call_target(b.term(s)), "the appointment is stored although add_update_appointment may have failed (NotEnoughSlots)", where=b.line_of(s))
    # and once charged, always stored: no path from the successful charge returns without a store (a request that is turned
    # down after the charge — a late AlreadyTriggered, say — would move the balance although nothing was taken on)
    from .rulekit import switch_succ_with, always_reaches
    # the edge on which the charge itself is known to have succeeded (the value tested IS the call's result, possibly through
    # map_err / `?`), not every later test of something computed from it
    edges = switch_succ_with(ctx, b, "variant", "Ok", "Gatekeeper::add_update_appointment", exact=True)
    if not edges:
        rr.anchor_missing("success edge of add_update_appointment in add_appointment")
    for sw, succ in edges:
        if always_reaches(b, [succ], stores):
            rr.ok("every path after a successful charge stores the appointment", sample={"rule": "CBS", "after": "add_update_appointment = Ok", "always reaches": "store_appointment | store_triggered_appointment"})
        else:
            rr.fail("charged-but-not-stored", "`Watcher::add_appointment` can return after `add_update_appointment` succeeded without storing the appointment: the request is refused (or lost) but the user's balance has changed", where=b.line_of(sw))
    rr.require_floor(5, "CBS instances")
    return rr


def rule_CBR(ctx, tier):
    """the other direction of CBS.  A replacement by a SMALLER blob gives slots back: the balance is credited (and persisted)
    by Gatekeeper::add_update_appointment, the stored blob is rewritten later by Watcher::store_appointment, two autocommit
    statements.  A crash in between leaves the user with the slots AND the old, bigger appointment: C03 'a crash never grants
    slots'.  Charge-then-store is the right order for a bigger replacement and the wrong one for a smaller one, so either
    the balance write is reached only with a non-negative difference, or the blob was rewritten before it (same function), or
    both writes are issued inside one transaction."""
    rr = RuleResult("CBR", "a replacement that gives slots back rewrites the stored blob before (or atomically with) crediting the balance")
    P = ctx.prog
    g = P.require(ADD_UPDATE_APPT)
    from .rulekit import relations, const_of, sites
    from . import origin as og
    ups = sites(g, "teos::dbm::DBM::update_user")
    if not ups:
        rr.anchor_missing("DBM::update_user in Gatekeeper::add_update_appointment")
        return rr
    before = ctx.pf.called_before(g)
    for u in ups:
        nonneg = False
        for op, l, r in relations(ctx, g, u):
            c = const_of(r)
            ls = og.show(l)
            if c and c[0] == 0 and op in ("Ge", "Gt") and "compute_appointment_slots" in ls and "Sub" in ls:
                nonneg = True
        rewritten = any(x.endswith(("DBM::update_appointment", "DBM::store_appointment")) for x in before.get(u, set()))
        in_tx = any("Connection::transaction" in x or "unchecked_transaction" in x for x in before.get(u, set()))
        if nonneg or rewritten or in_tx:
            rr.ok("balance written only for a charge, or after / together with the blob", sample={"rule": "CBR", "site": g.line_of(u), "non-negative difference": nonneg, "blob rewritten before": rewritten})
        else:
            rr.fail("replace:credit-before-rewrite", "`Gatekeeper::add_update_appointment` persists a balance that may have been CREDITED (required - used < 0: the replacement is smaller) while the stored appointment is still the old, bigger one; `Watcher::store_appointment` rewrites it later in a statement of its own. A crash in between leaves the user with the slots and the bigger appointment (C03: a crash never grants slots)", where=g.line_of(u))
    return rr


def rule_AT4(ctx, tier):
    rr = RuleResult("AT4", "block disconnection vs a concurrent trigger: the index is purged before the reorged trackers are collected")
    P = ctx.prog
    b = P.require("<teos::responder::Responder as lightning::chain::Listen>::block_disconnected")
    scans = [bb for bb, t in b.calls() if (call_target(t) or "").endswith("DBM::load_trackers_with_confirmation_status")]
    purges = [bb for bb, t in b.calls() if (call_target(t) or "").endswith("::remove_disconnected_block")]
    if not scans or not purges:
        rr.anchor_missing("remove_disconnected_block / load_trackers_with_confirmation_status in Responder::block_disconnected")
        return rr
    before = ctx.pf.called_before(b)
    for sc in scans:
        if any(n.endswith("::remove_disconnected_block") for n in before.get(sc, set())):
            rr.ok("Responder::block_disconnected removes the block from the index before looking for trackers confirmed in it",
                  sample={"rule": "AT4", "order": "tx_index.remove_disconnected_block -> dbm.load_trackers_with_confirmation_status(ConfirmedIn(h))",
                          "why": "handle_breach looks the penalty up and stores the tracker under the tx_index lock: with this order it either stores before the scan (flagged as reorged) or misses the block (tracked as in mempool)"})
        else:
            rr.fail("reorg-scan-before-purge", "`Responder::block_disconnected` collects the trackers confirmed in the disconnected block before the block leaves the index: a concurrent `handle_breach` can find the penalty in that block and store `ConfirmedIn(h)` after the scan — never flagged as reorged, never rebroadcast, completed and refunded 100 blocks later", where=b.line_of(sc))
    # the Watcher's side: its cache entry for the block goes away in block_disconnected too (TH checks the driver discipline)
    rr.require_floor(1, "AT4 instances")
    return rr


def rule_AT6(ctx, tier):
    """Responder::handle_breach decides (index look-up, mempool check / send) and records (add_tracker) in one critical section of
    both the carrier and the tx_index lock.  Responder::filtered_block_connected starts by taking the carrier lock and updates the
    index under the tx_index lock, so with this span a block is handled entirely before or entirely after a trigger; AT4's order
    argument for block_disconnected relies on the same span."""
    rr = RuleResult("AT6", "handle_breach: the index look-up, the node verdict and add_tracker are one critical section of carrier and tx_index")
    P = ctx.prog
    b = P.require(HANDLE_BREACH)
    bl = ctx.locks.locks(b.id)
    need = (C["carrier"], C["tx_index"])
    looks = [bb for bb, t in b.calls() if (call_target(t) or "").startswith("teos::tx_index::TxIndex") and (call_target(t) or "").split("::")[-1] in ("get", "get_height", "contains_key")]
    acts = [bb for bb, t in b.calls() if (call_target(t) or "").endswith(("Carrier::send_transaction", "Carrier::in_mempool"))]
    adds = [bb for bb, t in b.calls() if (call_target(t) or "").endswith("Responder::add_tracker")]
    if not looks or not acts or not adds:
        rr.anchor_missing("TxIndex::get / Carrier::send_transaction / Responder::add_tracker in Responder::handle_breach")
        return rr
    for x in looks + acts + adds:
        held = bl.classes_at_term(x)
        miss = [c for c in need if c not in held]
        if not miss:
            rr.ok("both locks held at %s" % (call_target(b.term(x)) or "").split("::")[-1], nontrivial=False)
        else:
            rr.fail("trigger:not-under-locks:%s" % (call_target(b.term(x)) or "").split("::")[-1], "Responder::handle_breach reaches `%s` without holding %s: a block connected (or disconnected) between the look-up and the tracker's insertion is missed — the penalty mined in it is recorded as InMempoolSince, or a ConfirmedIn(h) tracker is stored after the reorg scan" % ((call_target(b.term(x)) or "").split("::")[-1], " and ".join({C["carrier"]: "the carrier lock", C["tx_index"]: "the tx_index lock"}[c] for c in miss)), where=b.line_of(x))
    ok_span = True
    for l_ in looks[:1]:
        for a_ in adds:
            if a_ in b.reachable(l_):
                span = ctx.locks.held_span(b.id, l_, [a_])
                if not all(c in span for c in need):
                    ok_span = False
                    rr.fail("trigger:span-broken", "the carrier / tx_index guards taken for the look-up in Responder::handle_breach are not held continuously up to `add_tracker` (held throughout: %s): the decision and its record are two critical sections" % sorted({C["carrier"]: "carrier", C["tx_index"]: "tx_index"}.get(c, c.split("::")[-1]) for c in span), where=b.line_of(a_))
    if ok_span:
        rr.ok("look-up .. add_tracker is one span of carrier and tx_index", sample={"rule": "AT6", "from": "TxIndex::get", "to": "Responder::add_tracker", "held throughout": ["carrier", "tx_index"]})
    rr.require_floor(1, "AT6 instances")
    return rr


def rule_AT5(ctx, tier):
    rr = RuleResult("AT5", "the purge of outdated users is one critical section of the users lock: selecting them, removing them from memory and deleting their rows")
    P = ctx.prog
    b = P.require("<teos::gatekeeper::Gatekeeper as lightning::chain::Listen>::filtered_block_connected")
    bl = ctx.locks.locks(b.id)
    users = C["users"]
    own = [bb for (bid, bb, c, kind, held) in ctx.locks.acquire_sites if bid == b.id and c == users]
    may = ctx.locks.may_acquire()
    via = [(bb, call_target(t)) for bb, t in b.calls() if any(n in P.bodies and users in (may.get(n) or ()) for n in call_names(t))]
    from .rulekit import sites_containing, arg_origin
    from . import origin as og
    removes = [x for x in sites_containing(b, "HashMap", "::remove") if "f:registered_users" in og.show(arg_origin(ctx, b, x, 0))]
    dbdel = [bb for bb, t in b.calls() if (call_target(t) or "").endswith("DBM::batch_remove_users")]
    if not removes or not dbdel:
        rr.anchor_missing("registered_users.remove / DBM::batch_remove_users in Gatekeeper::filtered_block_connected")
        return rr
    n = len(own) + len(via)
    if n == 1:
        rr.ok("purge: the users lock is taken once", sample={"rule": "AT5", "acquisitions": 1})
    else:
        rr.fail("purge:sections=%d" % n, "`Gatekeeper::filtered_block_connected` takes the users lock %d times (%s): a renewal landing after the outdated users were selected is acknowledged and then purged all the same; a registration landing after they left the map but before their rows are deleted hits the still existing row (INSERT fails -> unwrap panics under the users guard)" % (
            n, ", ".join(["own lock()"] * len(own) + [shortfn_(c) for _, c in via])), where=b.span)
    for x in removes + dbdel:
        if users in bl.classes_at_term(x):
            rr.ok("purge: %s under the users guard" % (call_target(b.term(x)) or "?").split("::")[-1])
        else:
            rr.fail("purge:%s-outside" % (call_target(b.term(x)) or "?").split("::")[-1], "`%s` runs in `Gatekeeper::filtered_block_connected` without the users guard that selected the outdated users" % (call_target(b.term(x)) or "?"), where=b.line_of(x))
    rr.require_floor(3, "AT5 instances")
    return rr


def shortfn_(x):
    return (x or "?").split("::", 1)[-1]
