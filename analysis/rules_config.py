"""C20: effective configuration = CLI over file over defaults; unsafe configs refused.  Tables and origins only."""
import itertools
import os
import re

from .facts import call_names, call_target
from .framework import RuleResult
from . import origin as og
from .extract import REPO
from .rulekit import sites, sites_containing, arg_origin, has_call, find_calls, const_of, variant_fact, truth_fact, facts_at, shortfn, subject_is_call
from .rules_tower import field_writes
from .tables import eval_fn

CFG = "teos::config::Config::"


def _writes(ctx, b):
    """field -> [(bb, origin)] for writes `(*self).field = ..`"""
    out = {}
    for bb in b.rpo():
        for s in b.blocks[bb]["s"]:
            if s["k"] == "assign" and len(s["d"]) >= 2 and s["d"][0] == 1 and s["d"][-1].startswith("f:"):
                out.setdefault(s["d"][-1][2:], []).append((bb, ctx.og._rvalue(b, s["rv"], 0, ())))
    # drop-and-replace of String fields goes through a temp + Drop; also handle `*place = move tmp` after drop
    return out


def rule_CF(ctx, tier):
    rr = RuleResult("CF", "configuration precedence, one-shot switches, auth table, network table, verify-before-use")
    P = ctx.prog
    opt = P.adts.get("teos::config::Opt")
    cfg = P.adts.get("teos::config::Config")
    if not opt or not cfg:
        rr.anchor_missing("teos::config::{Opt, Config}")
        return rr
    of = {f["name"]: f for f in opt["variants"][0]["fields"]}
    cf = {f["name"]: f for f in cfg["variants"][0]["fields"]}
    b = P.require(CFG + "patch_with_options")
    ws = _writes(ctx, b)
    for name, f in of.items():
        if name == "data_dir":
            continue
        if name not in cf:
            rr.fail("opt-without-config:%s" % name, "command-line option `%s` has no Config field" % name)
            continue
        w = ws.get(name, [])
        if len(w) != 1:
            rr.fail("patch:writes:%s=%d" % (name, len(w)), "patch_with_options writes Config.%s %d times (the option is ignored or applied twice)" % (name, len(w)), where=b.span)
            continue
        bb, v = w[0]
        s = og.show(v)
        if f["ty"].startswith("std::option::Option<"):
            some = any((fc[0] == "truth" and fc[2] is True and has_call(fc[1], "Option", "is_some") and ("f:" + name) in og.show(fc[1])) or
                       (fc[0] == "variant" and fc[2] == "Some" and og.show(fc[1]) == "param#2@patch_with_options.f:%s" % name) for fc in facts_at(ctx, b, bb))
            if some and s == "param#2@patch_with_options.f:%s.v:Some.f:0" % name:
                rr.ok("%s: CLI value if given, else unchanged" % name, sample={"rule": "CF", "option": name, "write": s, "guard": "options.%s.is_some()" % name})
            else:
                rr.fail("patch:option:%s" % name, "Config.%s is set to `%s`%s; expected `options.%s.unwrap()` under `options.%s.is_some()`" % (name, s[:80], "" if some else " without the is_some guard", name, name), where=b.line_of(bb))
        elif name in ("overwrite_key", "force_update"):
            if v == ("proj", ("param", b.id, 2), ("f:" + name,)):
                rr.ok("%s: command line only (file value discarded)" % name, sample={"rule": "CF", "switch": name, "write": s})
            else:
                rr.fail("patch:one-shot:%s" % name, "the destructive switch `%s` is set to `%s`: it must take effect only when given on the command line, never from the configuration file" % (name, s[:100]), where=b.line_of(bb))
        else:
            ok = v[0] == "bin" and v[1] == "BitOr" and {og.show(v[2]), og.show(v[3])} == {"param#1@patch_with_options.f:%s" % name, "param#2@patch_with_options.f:%s" % name}
            if ok:
                rr.ok("%s: file OR command line" % name)
            else:
                rr.fail("patch:flag:%s" % name, "flag `%s` is set to `%s` (expected file | cli)" % (name, s[:100]), where=b.line_of(bb))
    for name in ws:
        if name not in of:
            rr.fail("patch:extra-write:%s" % name, "patch_with_options writes Config.%s, which is not a command-line option" % name, where=b.span)
    # the sibling: teos-cli patches its own two-field Config from its own Opt by the same rule (CLI value if given, else unchanged)
    copt, ccfg = P.adts.get("teos::cli_config::Opt"), P.adts.get("teos::cli_config::Config")
    cb = P.bodies.get("teos::cli_config::Config::patch_with_options")
    if not copt or not ccfg or cb is None:
        rr.anchor_missing("teos::cli_config::{Opt, Config, Config::patch_with_options}")
    else:
        cof = {f["name"]: f for f in copt["variants"][0]["fields"]}
        cws = _writes(ctx, cb)
        for f_ in ccfg["variants"][0]["fields"]:
            name = f_["name"]
            if name not in cof or not cof[name]["ty"].startswith("std::option::Option<"):
                rr.fail("cli-patch:no-option:%s" % name, "teos-cli's Config.%s has no optional command-line twin in its Opt" % name)
                continue
            w = cws.get(name, [])
            if len(w) != 1:
                rr.fail("cli-patch:writes:%s=%d" % (name, len(w)), "cli_config::Config::patch_with_options writes %s %d times" % (name, len(w)), where=cb.span)
                continue
            bb, v = w[0]
            sv = og.show(v)
            some = any((fc[0] == "truth" and fc[2] is True and has_call(fc[1], "Option", "is_some") and ("f:" + name) in og.show(fc[1])) or
                       (fc[0] == "variant" and fc[2] == "Some" and og.show(fc[1]) == "param#2@patch_with_options.f:%s" % name) for fc in facts_at(ctx, cb, bb))
            if some and sv == "param#2@patch_with_options.f:%s.v:Some.f:0" % name:
                rr.ok("teos-cli %s: CLI value if given, else unchanged" % name)
            else:
                rr.fail("cli-patch:option:%s" % name, "teos-cli's Config.%s is set to `%s`%s; expected the command-line value under is_some" % (name, sv[:80], "" if some else " without the is_some guard"), where=cb.line_of(bb))
        for name in cws:
            if name not in {f_["name"] for f_ in ccfg["variants"][0]["fields"]}:
                rr.fail("cli-patch:extra-write:%s" % name, "cli_config::Config::patch_with_options writes %s" % name, where=cb.span)
    # file layer: struct-level serde default => missing keys fall back to Config::default
    callers = {c for c, bb in P.callers().get("<teos::config::Config as std::default::Default>::default", [])}
    if any("Deserialize" in c and "teos::config::Config" in c for c in callers):
        rr.ok("Config's Deserialize falls back to Config::default for missing keys")
    else:
        rr.fail("no-serde-default", "the Deserialize impl of Config does not use Config::default for missing keys (#[serde(default)] removed?): a partial file is rejected and silently replaced by ALL defaults")
    ff = P.require("teos::config::from_file")
    if sites_containing(ff, "toml", "from_slice") and sites_containing(ff, "Default", "default"):
        rr.ok("from_file: parse the file, else defaults")
    else:
        rr.fail("from_file-shape", "from_file does not parse toml / fall back to defaults", where=ff.span)
    # template keys are Config fields
    tpl = os.path.join(REPO, "teos", "src", "conf_template.toml")
    if os.path.exists(tpl):
        keys = set()
        for line in open(tpl):
            m = re.match(r"\s*#?\s*([a-z_0-9]+)\s*=", line)
            if m:
                keys.add(m.group(1))
        bad = sorted(k for k in keys if k not in cf)
        if keys and not bad:
            rr.ok("every key of conf_template.toml is a Config field (%d keys)" % len(keys), nontrivial=False)
        else:
            rr.fail("template-keys:%s" % ",".join(bad), "conf_template.toml documents keys that Config does not have: %s (they would be silently ignored)" % bad)
    # documented numeric defaults
    d = P.require("<teos::config::Config as std::default::Default>::default")
    dv = ctx.og.local(d, 0)
    dvals = dict(dv[3]) if dv[0] == "agg" else {}
    for name, f in of.items():
        m = re.search(r"\[default: ([^\]]+)\]", f.get("doc") or "")
        if not m or name not in dvals:
            continue
        doc = m.group(1)
        k = const_of(dvals[name])
        if doc.isdigit():
            if name == "btc_rpc_port":
                continue
            if k and k[0] == int(doc):
                rr.ok("default %s = %s as documented" % (name, doc))
            else:
                rr.fail("default:%s" % name, "`--%s` documents [default: %s] but Config::default sets %s" % (name, doc, og.show(dvals[name])), where=d.span)
    # ... and the shipped template: the numeric value it shows for a key is the value Config::default gives that key (the template
    # is the documentation of the defaults; `btc_rpc_port` is the exception, its default is chosen by the network in verify)
    if os.path.exists(tpl):
        for line in open(tpl):
            m_ = re.match(r"\s*([a-z_0-9]+)\s*=\s*(\d+)\s*$", line)
            if not m_ or m_.group(1) == "btc_rpc_port" or m_.group(1) not in dvals:
                continue
            k = const_of(dvals[m_.group(1)])
            if k and k[0] == int(m_.group(2)):
                rr.ok("default %s = %s as in conf_template.toml" % (m_.group(1), m_.group(2)))
            elif k:
                rr.fail("default-vs-template:%s" % m_.group(1), "conf_template.toml documents %s = %s, Config::default sets %s: an operator who leaves the key out gets another value than the documented default" % (m_.group(1), m_.group(2), k[0]), where=d.span)
    # auth table
    want = {(False, False, True): "UserPass", (True, True, False): "CookieFile", (True, True, True): "Invalid"}
    allok = True
    table = {}
    for row in itertools.product([True, False], repeat=3):
        def oracle(names, args, body, t, row=row):
            if any(n.endswith("String::is_empty") for n in names):
                a = args[0]
                for i, fld in enumerate(("f:btc_rpc_user", "f:btc_rpc_password", "f:btc_rpc_cookie")):
                    if a[0] == "self" and fld in a:
                        return ("bool", row[i])
            return None
        r = eval_fn(ctx, CFG + "get_auth_method", oracle)
        got = r[1] if r and r[0] == "variant" else None
        table[row] = got
        exp = want.get(row, "Multiple")
        refuse = ("Multiple", "Invalid")  # verify() refuses both; which of the two a refused row gets is only the wording of the error
        if got != exp and not (got in refuse and exp in refuse):
            allok = False
            rr.fail("auth-table:%s" % ("".join("E" if x else "S" for x in row)), "get_auth_method(user %s, password %s, cookie %s) = %s, documented: %s" % (*("empty" if x else "set" for x in row), got, exp))
    if allok:
        rr.ok("get_auth_method: all 8 credential combinations", sample={"rule": "CF", "auth table (user_empty, password_empty, cookie_empty)": {str(k): v for k, v in table.items()}})
    v = P.require(CFG + "verify")
    errs = [bb for bb in v.rpo() for s in v.blocks[bb]["s"] if s["k"] == "assign" and s["d"] == [0] and s["rv"]["k"] == "agg" and s["rv"].get("variant") == "Err"]
    # an error propagated with `?` (from a helper that returns Result) is an Err return too
    errs += [bb for bb, t_ in v.calls() if (call_target(t_) or "").endswith("::from_residual") and t_.get("dest") == [0]]
    oks = [bb for bb in v.rpo() for s in v.blocks[bb]["s"] if s["k"] == "assign" and s["d"] == [0] and s["rv"]["k"] == "agg" and s["rv"].get("variant") == "Ok"]
    ALLV = {"Invalid", "Multiple", "UserPass", "CookieFile"}

    def auth_possible(bb):
        """auth methods consistent with what is known at bb: comparisons with a variant (== / !=, either spelling) and match arms"""
        from .rulekit import rel_of_term
        poss = set(ALLV)
        for f in facts_at(ctx, v, bb):
            if f[0] == "truth":
                for op, l, r in rel_of_term(f[1], f[2]):
                    r_ = og.strip(r)
                    if op in ("Eq", "Ne") and has_call(l, "get_auth_method") and isinstance(r_, tuple) and r_ and r_[0] == "agg" and r_[1].endswith("AuthMethod"):
                        poss &= ({r_[2]} if op == "Eq" else ALLV - {r_[2]})
            elif f[0] == "variant" and has_call(f[1], "get_auth_method") and f[2] in ALLV:
                poss &= {f[2]}
            elif f[0] == "variant_in" and has_call(f[1], "get_auth_method"):
                poss &= set(f[2])
        return poss
    refused = set()
    for bb in errs:
        p_ = auth_possible(bb)
        if p_ <= {"Invalid", "Multiple"}:
            refused |= p_
    if {"Invalid", "Multiple"} <= refused:
        rr.ok("verify: Err for AuthMethod::Invalid and AuthMethod::Multiple")
    else:
        rr.fail("verify:auth-not-refused:%s" % ",".join(sorted({"Invalid", "Multiple"} - refused)), "Config::verify does not return Err for auth method(s) %s" % sorted({"Invalid", "Multiple"} - refused), where=v.span)
    for bb in oks:
        p_ = auth_possible(bb)
        if not (p_ & {"Invalid", "Multiple"}):
            rr.ok("verify: Ok only with exactly one auth method")
        else:
            rr.fail("verify:ok-without-auth-check", "Config::verify can return Ok without having excluded Invalid/Multiple auth", where=v.line_of(bb))
    # network table
    table = {}
    for bb, t in v.calls():
        if any(n.endswith("::eq") for n in call_names(t)) and len(t["args"]) == 2:
            lits = [const_of(arg_origin(ctx, v, bb, i)) for i in (0, 1)]
            lit = next((l[0] for l in lits if l and isinstance(l[0], str)), None)
            if lit is None:
                continue
            nxt = v.succ(bb)
            if not nxt or v.term(nxt[0])["k"] != "switch":
                continue
            for succ, facts in ctx.pf.switch_facts(v, nxt[0]).items():
                if any(f[0] == "truth" and f[2] is True for f in facts):
                    for x in v.reachable(succ, stop=lambda y: len(v.preds().get(y, [])) > 1 and y != succ):
                        for s in v.blocks[x]["s"]:
                            if s["k"] == "assign" and s["rv"]["k"] == "use" and "k" in s["rv"]["o"] and "int" in s["rv"]["o"]["k"]:
                                table[lit] = s["rv"]["o"]["k"]["int"]
                            elif s["k"] == "assign" and s["rv"]["k"] == "agg" and s["rv"].get("variant") in ("Ok", "Some"):
                                # `Ok(8332)` when the table lives in a helper that returns a Result / Option
                                for o_ in s["rv"].get("ops", []):
                                    if isinstance(o_, dict) and isinstance(o_.get("k"), dict) and "int" in o_["k"]:
                                        table[lit] = o_["k"]["int"]
    # the name that is recognised is the name that is kept: the comparisons run on btc_network itself (through as_str /
    # deref only) — recognising a transformed copy (lower-cased, trimmed) lets `Regtest` through verify while the data
    # directory, the DB and the chain check later use the string as typed
    xform = set()
    for bb, t in v.calls():
        if any(n.endswith("::eq") or n.endswith("::contains") for n in call_names(t)) and len(t["args"]) == 2:
            for i in (0, 1):
                a_ = arg_origin(ctx, v, bb, i)
                if "f:btc_network" in og.show(a_):
                    for c_ in og.calls_in(a_):
                        last = c_.split("::")[-1]
                        if last in ("to_lowercase", "to_uppercase", "to_ascii_lowercase", "to_ascii_uppercase", "trim", "trim_start", "trim_end", "replace", "trim_matches", "eq_ignore_ascii_case"):
                            xform.add(last)
        if any(n.endswith("eq_ignore_ascii_case") for n in call_names(t)) and any("f:btc_network" in og.show(arg_origin(ctx, v, bb, i)) for i in range(len(t["args"]))):
            xform.add("eq_ignore_ascii_case")
    if xform:
        rr.fail("network-compare-transformed:%s" % ",".join(sorted(xform)), "Config::verify recognises the network on a transformed copy of `btc_network` (%s) while the field keeps what was typed: an unknown spelling passes verify and the tower opens its data directory and database before failing" % ", ".join(sorted(xform)), where=v.span)
    else:
        rr.ok("network recognised on btc_network itself (no case folding / trimming of a copy)")
    wantn = {"main": 8332, "test": 18332, "regtest": 18443, "signet": 38332}
    if table == wantn:
        rr.ok("network -> default RPC port table %s" % wantn, sample={"rule": "CF", "network table": table})
    else:
        rr.fail("network-table", "Config::verify maps networks to ports %s, documented %s" % (table, wantn), where=v.span)
    strs = set()
    def walk(o):
        if isinstance(o, dict):
            if "str" in o:
                strs.add(o["str"])
            for x in o.values():
                walk(x)
        elif isinstance(o, list):
            for x in o:
                walk(x)
    walk(v.blocks)
    if {"mainnet", "testnet", "net"} <= strs and sites_containing(v, "trim_end_matches"):
        rr.ok("mainnet/testnet normalised")
    else:
        rr.fail("network-normalisation", "mainnet/testnet are not normalised to main/test", where=v.span)
    pw = _writes(ctx, v).get("btc_rpc_port", [])
    if len(pw) == 1:
        bb, val = pw[0]
        guard = any(f[0] == "truth" and f[2] is True and f[1][0] == "bin" and f[1][1] == "Eq" and "f:btc_rpc_port" in og.show(f[1]) and const_of(f[1][3]) and const_of(f[1][3])[0] == 0 for f in facts_at(ctx, v, bb))
        if guard:
            rr.ok("default port applied only when btc_rpc_port == 0 (not set)")
        else:
            rr.fail("port-overwritten", "Config::verify overwrites an explicitly configured btc_rpc_port", where=v.line_of(bb))
    else:
        rr.fail("port-writes=%d" % len(pw), "expected one write of btc_rpc_port in verify", where=v.span)
    # the command line is parsed before the file is merged, so the generated clap definition may not carry constraints that
    # only make sense on the merged configuration (`requires`, `conflicts_with`, `required`, value sets): an option given in
    # the file and its companion on the command line must remain a legal start
    ac = P.bodies.get("<teos::config::Opt as structopt::StructOptInternal>::augment_clap")
    if ac is None:
        rr.anchor_missing("<teos::config::Opt as StructOptInternal>::augment_clap")
    else:
        import collections as _c
        meths = _c.Counter((call_target(t) or "").split("::")[-1] for bb, t in ac.calls() if "clap::Arg" in (call_target(t) or ""))
        relational = sorted(m_ for m_ in meths if m_.startswith(("requires", "conflicts_with", "required_unless", "required_if", "group", "possible_value", "min_values", "max_values", "number_of_values", "overrides_with", "empty_values", "require_equals")))
        if relational:
            rr.fail("cli-constraint:%s" % ",".join(relational), "the command-line definition of `Opt` carries %s: it is enforced on the command line alone, before the file is merged, so a configuration whose other half is in teos.toml is refused although the merged configuration is valid" % ", ".join("`%s`" % m_ for m_ in relational), where=ac.span)
        elif meths.get("required", 0) <= 1 and meths.get("default_value", 0) <= 1:
            rr.ok("command-line options carry no cross-option constraints (%d options, all optional on the command line)" % meths.get("with_name", 0))
        else:
            rr.fail("cli-required", "the command-line definition of `Opt` makes %d option(s) required / defaulted on the command line (1 expected: data_dir): the value from the file can no longer apply" % max(meths.get("required", 0), meths.get("default_value", 0)), where=ac.span)
    # verify validates; it rewrites nothing the operator configured except the two documented normalisations
    extra = sorted(f for f in _writes(ctx, v) if f not in ("btc_rpc_port", "btc_network"))
    if not extra:
        rr.ok("verify writes only btc_network (normalisation) and btc_rpc_port (default when unset)")
    else:
        rr.fail("verify-rewrites:%s" % ",".join(extra), "Config::verify changes the configured value of %s: the tower then runs with a value other than the one the operator set (and the one the documentation promises)" % ", ".join("`%s`" % f for f in extra), where=v.span)
    # the file layer: teosd and teos-cli read the SAME <data_dir>/teos.toml, each into its own struct, and `from_file` answers a file
    # that fails to parse with the defaults. So both structs must take a file that has keys they do not know (each other's) and
    # lacks keys they do know: no `unknown_field` and no `missing_field` error in their generated deserialisers.
    for cfgty in ("teos::config::Config", "teos::cli_config::Config"):
        fam = [bid for bid in P.bodies if ("Deserialize<'de> for %s>::deserialize" % cfgty) in bid]
        if not fam:
            rr.anchor_missing("derived Deserialize of %s" % cfgty)
            continue
        badc = {}
        for bid in fam:
            for bb, t in P.bodies[bid].calls():
                last = (call_target(t) or "").split("::")[-1]
                if last in ("unknown_field", "missing_field", "unknown_variant"):
                    badc.setdefault(last, P.bodies[bid].line_of(bb))
        # an absent key takes the value of the struct's own Default (the documented default), not the default of its type:
        # a field-level #[serde(default)] wins over the container-level one and yields 0 / false / ""
        own = "<%s as std::default::Default>::default" % cfgty
        for bid in fam:
            for bb, t in P.bodies[bid].calls():
                tg_ = call_target(t) or ""
                if tg_.split("::")[-1] == "default" and "Default" in tg_ and tg_ != own and "PhantomData" not in tg_:
                    badc.setdefault("type-default:" + tg_.split(" as ")[0].lstrip("<")[-30:], P.bodies[bid].line_of(bb))
        if not badc:
            rr.ok("%s: unknown keys ignored, absent keys take the value of the struct's own Default (%d generated bodies)" % (cfgty, len(fam)))
        for last, wh in sorted(badc.items()):
            rr.fail("file-layer-voided:%s:%s" % (cfgty.split("::")[-2], last), ("the deserialiser of `%s` fills an absent key with `%s`, the default of the field's TYPE, instead of the value `Config::default()` documents for it" % (cfgty, last[13:])) if last.startswith("type-default:") else ("the deserialiser of `%s` raises `%s`: the configuration file is shared by teosd and teos-cli, so any ordinary teos.toml then fails to parse for this reader and `from_file` silently falls back to the defaults — the file layer of 'command line over file over defaults' is gone" % (cfgty, last)), where=wh)
    # ... and a file that IS there but cannot be used is not replaced by the defaults: "else the file value if present" — one
    # value of the wrong type (polling_delta = 100000 does not fit 16 bits) would otherwise discard every other setting of the file,
    # and the tower comes up on mainnet / 8332 / 10000 slots with only one line on stderr. Defaults are for a file that is absent.
    ff = P.bodies.get("teos::config::from_file")
    if ff is None:
        rr.anchor_missing("teos::config::from_file")
    else:
        bad_default = []
        for cid in P.family(ff.id):
            cb_ = P.bodies[cid]
            for bb, t in cb_.calls():
                tg_ = call_target(t) or ""
                if tg_.split("::")[-1] == "default" and "Default" in tg_:
                    missing_file = cid == ff.id and any(f[0] == "variant" and f[2] == "Err" and subject_is_call(f[1], "std::fs::read") for f in facts_at(ctx, cb_, bb))
                    if not missing_file:
                        bad_default.append(cb_.line_of(bb))
        if not bad_default:
            rr.ok("from_file: the defaults stand in only for a file that could not be read")
        else:
            rr.fail("file-layer-voided:parse-error", "`config::from_file` answers `T::default()` on a path other than 'the file could not be read' (the parse-error arm): a teos.toml with one unusable value is discarded as a whole and the daemon starts on the defaults — the file layer of 'command line over file over defaults' is gone for every other setting in it", where=bad_default[0])
    # unknown network => Err
    unk = [bb for bb in errs if not (auth_possible(bb) & {"Invalid", "Multiple"})]
    if unk:
        rr.ok("unknown network refused")
    else:
        rr.fail("unknown-network-accepted", "Config::verify has no Err for an unknown network", where=v.span)
    # main: Err of verify -> process::exit
    m = P.require("teosd::main::{closure#0}")
    vs = sites(m, CFG + "verify")
    ok = False
    for bb in m.rpo():
        t = m.term(bb)
        if t["k"] == "call" and any("unwrap_or_else" in n for n in call_names(t)) and has_call(arg_origin(ctx, m, bb, 0), "Config::verify"):
            cl = arg_origin(ctx, m, bb, 1)
            if cl[0] == "closure":
                cb = P.bodies.get(cl[1])
                if cb and sites(cb, "std::process::exit"):
                    ok = True
    # the Gatekeeper is built with the configured subscription parameters, field for field
    for bb in sites(m, "teos::gatekeeper::Gatekeeper::new"):
        want = {1: "subscription_slots", 2: "subscription_duration", 3: "expiry_delta"}
        bad = [(i, f) for i, f in want.items() if not (og.show(arg_origin(ctx, m, bb, i)).endswith(".f:" + f) and has_call(arg_origin(ctx, m, bb, i), "config::from_file"))]
        if not bad:
            rr.ok("Gatekeeper::new(.., conf.subscription_slots, conf.subscription_duration, conf.expiry_delta, ..)")
        else:
            rr.fail("gatekeeper-params", "teosd::main builds the Gatekeeper with %s" % ", ".join("argument %d = `%s` (expected conf.%s)" % (i, og.show(arg_origin(ctx, m, bb, i))[:60], f) for i, f in bad), where=m.line_of(bb))
    if vs and ok:
        rr.ok("main exits when verify fails")
    else:
        rr.fail("main:verify-ignored", "teosd::main does not terminate when Config::verify returns Err", where=m.span)
    rr.require_floor(30, "CF instances")
    return rr


def rule_CF_switches(ctx, tier):
    """the clause of CF that a restart depends on (claimed under C03): `overwrite_key` and `force_update` reach main only from
    the command line, so a restart on the same data directory cannot regenerate the tower key or skip unprocessed blocks
    because of something the configuration file says (main's own guard on the switch is OR3's `key-regenerated`)"""
    rr = rule_CF(ctx, tier)
    keep = ("patch:one-shot", "patch:writes:overwrite_key", "patch:writes:force_update", "anchor-missing", "floor:")
    rr.findings = [f for f in rr.findings if f.key.startswith(keep)]
    rr.rule = "CFs"
    for f in rr.findings:
        f.rule = "CFs"
    rr.title = "destructive start-up switches (overwrite_key, force_update) are command-line only"
    return rr
