"""python3 -m analysis.mutsweep [--ops rel|const] [--files f1,f2] [--out FILE] : author-side mutation sweep.

Not a registered check.  For every relational operator (or integer literal) in the non-test part of the anchored
source files one mutant of a scratch copy of /repo is built, facts are re-extracted and the quick tier of every
property is run; the table of mutants nobody reports is read by hand (equivalent / outside the properties / a hole).
Results: one JSON object per mutant in --out (default /verif/.cache/mutsweep.jsonl).
"""
import hashlib
import json
import os
import re
import shutil
import subprocess
import sys
from concurrent.futures import ThreadPoolExecutor

VERIF = os.path.dirname(os.path.dirname(os.path.abspath(__file__)))
REPO = "/repo"
# the sweep takes an hour or more: it runs a frozen copy of the checker (made by --snapshot), so that rules edited meanwhile
# neither crash it nor change what is being measured
SNAP = os.path.join(VERIF, ".cache", "snap")
CHECK = os.path.join(SNAP, "check") if os.path.exists(os.path.join(SNAP, "check")) else os.path.join(VERIF, "check")
FILES = [
    "teos/src/watcher.rs", "teos/src/responder.rs", "teos/src/gatekeeper.rs", "teos/src/carrier.rs", "teos/src/chain_monitor.rs",
    "teos/src/tx_index.rs", "teos/src/dbm.rs", "teos/src/extended_appointment.rs", "teos/src/main.rs", "teos/src/config.rs",
    "teos/src/bitcoin_cli.rs", "teos/src/api/http.rs", "teos/src/api/internal.rs", "teos/src/api/tor.rs", "teos/src/tls.rs",
    "teos-common/src/appointment.rs", "teos-common/src/cryptography.rs", "teos-common/src/receipts.rs", "teos-common/src/dbm.rs",
    "teos-common/src/lib.rs", "teos-common/src/net/http.rs", "teos-common/src/net/mod.rs", "teos-common/src/ser.rs",
    "watchtower-plugin/src/retrier.rs", "watchtower-plugin/src/wt_client.rs", "watchtower-plugin/src/net/http.rs",
    "watchtower-plugin/src/dbm.rs", "watchtower-plugin/src/main.rs", "watchtower-plugin/src/lib.rs", "watchtower-plugin/src/convert.rs",
    "watchtower-plugin/src/ser.rs",
]
SWAP = {"<": "<=", "<=": "<", ">": ">=", ">=": ">", "==": "!=", "!=": "=="}


def non_test_len(text):
    m = re.search(r"^#\[cfg\(test\)\]\s*\n\s*mod tests", text, re.M)
    return m.start() if m else len(text)


def in_string_or_comment(line, col):
    s = line[:col]
    if "//" in s:
        return True
    return s.count('"') % 2 == 1


def rel_sites(text):
    end = non_test_len(text)
    out = []
    for m in re.finditer(r"(?<=\s)(<=|>=|==|!=|<|>)(?=\s)", text[:end]):
        ls = text.rfind("\n", 0, m.start()) + 1
        le = text.find("\n", m.start())
        line = text[ls:le]
        if in_string_or_comment(line, m.start() - ls) or line.lstrip().startswith(("//", "#[", "///")):
            continue
        out.append((m.start(), m.end(), m.group(1), SWAP[m.group(1)], text.count("\n", 0, m.start()) + 1, line.strip()))
    return out


def const_sites(text):
    end = non_test_len(text)
    out = []
    for m in re.finditer(r"(?<![\w.\"'#])(\d+)(?![\w.\"'])", text[:end]):
        ls = text.rfind("\n", 0, m.start()) + 1
        le = text.find("\n", m.start())
        line = text[ls:le]
        if in_string_or_comment(line, m.start() - ls) or line.lstrip().startswith(("//", "#[", "///", "use ")):
            continue
        v = int(m.group(1))
        out.append((m.start(), m.end(), m.group(1), str(v + 1), text.count("\n", 0, m.start()) + 1, line.strip()))
    return out


def generic_sites(text, rx, repl):
    end = non_test_len(text)
    out = []
    for m in re.finditer(rx, text[:end]):
        ls = text.rfind("\n", 0, m.start()) + 1
        le = text.find("\n", m.start())
        line = text[ls:le]
        if in_string_or_comment(line, m.start() - ls) or line.lstrip().startswith(("//", "#[", "///", "use ")):
            continue
        new = repl(m)
        if new is None:
            continue
        out.append((m.start(), m.end(), m.group(0), new, text.count("\n", 0, m.start()) + 1, line.strip()))
    return out


def logic_sites(text):
    a = generic_sites(text, r"(?<=\s)(&&|\|\|)(?=\s)", lambda m: "||" if m.group(1) == "&&" else "&&")
    # a negation directly after `if `, `while `, `(`, `&& `, `|| ` is dropped
    b = generic_sites(text, r"(?:(?<=if )|(?<=while )|(?<=&& )|(?<=\|\| )|(?<=\())!(?=[a-zA-Z_(])", lambda m: "")
    return a + b


def arith_sites(text):
    return generic_sites(text, r"(?<=\s)(\+|-)(?=\s)", lambda m: "-" if m.group(1) == "+" else "+")


def stmt_sites(text):
    """whole expression statements (a call whose value is dropped), one or several lines"""
    end = non_test_len(text)
    out = []
    lines = text[:end].split("\n")
    pos = 0
    starts = []
    for ln in lines:
        starts.append(pos)
        pos += len(ln) + 1
    i = 0
    while i < len(lines):
        st = lines[i].strip()
        if re.match(r"^(self\b|[a-z_][a-z_0-9]*(\.|::|\())", st) and not st.startswith(("let ", "return", "log::", "assert", "debug_assert", "if ", "for ", "while ", "match ", "loop", "use ", "else", "break", "continue", "fn ", "pub ", "impl ", "mod ", "async ", "const ", "static ", "type ", "struct ", "enum ", "unsafe ", "tokio::spawn", "println", "eprintln", "panic", "unreachable", "drop(")):
            depth = 0
            j = i
            ok = False
            while j < len(lines) and j < i + 25:
                for ch in re.sub(r'"(?:[^"\\]|\\.)*"', '""', lines[j].split("//")[0]):
                    if ch in "([{":
                        depth += 1
                    elif ch in ")]}":
                        depth -= 1
                if depth < 0:
                    break
                if depth == 0:
                    ok = lines[j].rstrip().endswith(";")
                    break
                j += 1
            if ok and " = " not in lines[i].split("(")[0] and "+=" not in lines[i].split("(")[0] and "-=" not in lines[i].split("(")[0]:
                a = starts[i]
                b = starts[j] + len(lines[j])
                out.append((a, b, text[a:b], "", i + 1, re.sub(r"\s+", " ", text[a:b]).strip()[:120]))
                i = j + 1
                continue
        i += 1
    return out


def run_mutant(job):
    rel, a, b, old, new, lineno, line = job
    key = hashlib.sha1(("%s:%d:%s" % (rel, a, new)).encode()).hexdigest()[:12]
    sc = os.path.join(VERIF, ".cache", "scratch", "mut_" + key)
    shutil.rmtree(sc, ignore_errors=True)
    os.makedirs(sc)
    repo = os.path.join(sc, "repo")
    subprocess.check_call(["rsync", "-a", "--exclude", "target", "--exclude", ".git", REPO + "/", repo + "/"])
    p = os.path.join(repo, rel)
    with open(p) as fh:
        t = fh.read()
    assert t[a:b] == old
    with open(p, "w") as fh:
        fh.write(t[:a] + new + t[b:])
    env = dict(os.environ, TEOS_REPO=repo, VERIF_FACTS_CACHE=os.path.join(sc, "facts"), VERIF_OUT_DIR=os.path.join(sc, "out"))
    r = subprocess.run([CHECK, "all", "--tier", "quick"], cwd=os.path.dirname(CHECK), env=env, stdout=subprocess.PIPE, stderr=subprocess.STDOUT, text=True)
    res = {"file": rel, "line": lineno, "src": line, "old": old, "new": new}
    if "fact extraction failed" in r.stdout or "does not type-check" in r.stdout:
        res["verdict"] = "NOCOMPILE"
    elif "internal-error" in r.stdout or "Traceback (most recent call last)" in r.stdout or "violations=" not in r.stdout:
        res["verdict"] = "ERROR"
    else:
        hits = sorted({l.strip()[:150] for l in r.stdout.splitlines() if l.startswith("  [")})
        res["verdict"] = "DETECTED" if hits else "SILENT"
        res["hits"] = hits[:6]
    shutil.rmtree(sc, ignore_errors=True)
    return res


def main():
    args = sys.argv[1:]
    if "--snapshot" in args:
        os.makedirs(SNAP, exist_ok=True)
        subprocess.check_call(["rsync", "-a", "--delete", "--exclude", ".cache", "--exclude", ".git", "--exclude", "seeded", "--exclude", "benign", "--exclude", "selftest", "--exclude", "evidence", "--exclude", "findings", VERIF + "/", SNAP + "/"])
        print("snapshot of the checker at", SNAP)
        return
    ops = args[args.index("--ops") + 1] if "--ops" in args else "rel"
    files = args[args.index("--files") + 1].split(",") if "--files" in args else FILES
    out = args[args.index("--out") + 1] if "--out" in args else os.path.join(VERIF, ".cache", "mutsweep.jsonl")
    jobs = []
    for rel in files:
        p = os.path.join(REPO, rel)
        if not os.path.exists(p):
            continue
        with open(p) as fh:
            t = fh.read()
        for s in {"rel": rel_sites, "const": const_sites, "logic": logic_sites, "arith": arith_sites, "stmt": stmt_sites}[ops](t):
            jobs.append((rel,) + s)
    if "--list" in args:
        for j in jobs:
            print("%s:%d  %s -> %s   %s" % (j[0], j[5], j[3], j[4], j[6][:100]))
        print(len(jobs), "mutants")
        return
    done = set()
    if os.path.exists(out):
        for l in open(out):
            d = json.loads(l)
            if d["verdict"] != "ERROR" and not ("--redo-silent" in args and d["verdict"] == "SILENT"):
                done.add((d["file"], d["line"], d["old"], d["new"], d["src"]))
    jobs = [j for j in jobs if (j[0], j[5], j[3], j[4], j[6]) not in done]
    print(len(jobs), "mutants to run", flush=True)
    with ThreadPoolExecutor(max_workers=int(os.environ.get("VERIF_JOBS", "4"))) as ex, open(out, "a") as fh:
        for res in ex.map(run_mutant, jobs):
            fh.write(json.dumps(res) + "\n")
            fh.flush()
            print("%-9s %s:%d  %s->%s  %s  %s" % (res["verdict"], res["file"], res["line"], res["old"], res["new"], res["src"][:70].replace("\n", " "), "; ".join(h[:60] for h in res.get("hits", [])[:2])), flush=True)


if __name__ == "__main__":
    main()
