"""Panic discipline: PN1 remote-controlled panics, PN2 validated-before-forwarded, PN3 replayed inserts,
PN4 stale look-ups.  Every unwrap/expect reachable from a thread root is enumerated and classified; the
classification table is frozen (confirmed by reading), unknown sites are judged by taint only."""
from .facts import call_names, call_target
from .framework import RuleResult
from . import origin as og, roots as R, sql
from .rulekit import (sites, sites_containing, arg_origin, has_call, find_calls, const_of, variant_fact, truth_fact,
                      facts_at, shortfn)

UNW = {"std::result::Result::<T, E>::unwrap", "std::option::Option::<T>::unwrap",
       "std::result::Result::<T, E>::expect", "std::option::Option::<T>::expect"}
API = "teos::api::internal::<impl teos::protos::public_tower_services_server::PublicTowerServices for std::sync::Arc<teos::api::internal::InternalAPI>>::"

# (enclosing fn suffix, producer suffix) -> (class, reason).  Classes:
#   ok        cannot fail by construction (reason says why); re-checked structurally where a check is named
#   undecided failure needs local disk/db corruption or an invariant of another property: not claimed
#   pn2/pn3/pn4  discharged (or not) by the sub-rule
TABLE = {
    ("PublicTowerServices for std::sync::Arc<teos::api::internal::InternalAPI>>::register::{closure#0}", "RegistrationReceipt::signature"): ("ok-signed", "Watcher::register must-calls RegistrationReceipt::sign"),
    ("InternalAPI>>::add_appointment::{closure#0}", "AppointmentReceipt::signature"): ("ok-signed", "Watcher::add_appointment signs before returning Ok (rule RC)"),
    ("InternalAPI>>::add_appointment::{closure#0}", "tonic::Request::<T>::into_inner"): ("pn2", "appointment present"),
    ("InternalAPI>>::add_appointment::{closure#0}", "Locator::from_slice"): ("pn2", "locator length"),
    ("InternalAPI>>::get_appointment::{closure#0}", "Locator::from_slice"): ("pn2", "locator length"),
    ("ChainMonitor::<'a, P, C, L>::poll_best_tip::{closure#0}", "DBM::store_last_known_block"): ("pn3", ""),
    ("Gatekeeper::add_update_user", "DBM::store_user"): ("pn3", ""),
    ("Gatekeeper::add_update_user", "HashMap::<K, V, S, A>::get_mut"): ("pn4", ""),
    ("Gatekeeper::add_update_appointment", "HashMap::<K, V, S, A>::get_mut"): ("pn4", ""),
    ("Gatekeeper::delete_appointments", "DBM::get_appointment_user_and_length"): ("ok", "refund=true only from the chain thread for trackers it just found completed under the DBM lock; only the chain thread deletes trackers"),
    ("Gatekeeper::delete_appointments", "HashMap::<K, V, S, A>::get_mut"): ("ok", "owner of a live tracker: purge (Gatekeeper, earlier in the same thread) cascades the tracker away first"),
    ("Responder::handle_breach", "TxIndex::<K, V>::get_height"): ("undecided", "TxIndex invariant (C19): a key returned by get has a height"),
    ("Responder::check_confirmations", "DBM::update_tracker_status"): ("pn4", ""),
    ("Responder::handle_reorged_txs", "DBM::load_tracker"): ("pn4", ""),
    ("Responder::handle_reorged_txs", "DBM::update_tracker_status"): ("pn4", ""),
    ("Responder::rebroadcast_stale_txs", "DBM::load_trackers_with_confirmation_status"): ("ok-const-status", "argument is a constant InMempoolSince(_): to_db_data is Some"),
    ("Responder::rebroadcast_stale_txs", "DBM::load_tracker"): ("pn4", ""),
    ("Responder::rebroadcast_stale_txs", "DBM::update_tracker_status"): ("pn4", ""),
    ("Responder as lightning::chain::Listen>::block_disconnected", "DBM::load_trackers_with_confirmation_status"): ("ok-const-status", "argument is a constant ConfirmedIn(_)"),
    ("TxIndex::<K, V>::remove_oldest_block", "VecDeque::<T, A>::pop_front"): ("undecided", "TxIndex invariant (C19)"),
    ("TxIndex::<K, V>::remove_oldest_block", "HashMap::<K, V, S, A>::remove"): ("undecided", "TxIndex invariant (C19)"),
    ("Watcher::add_appointment", "Gatekeeper::has_subscription_expired"): ("pn4", ""),
    ("Watcher::get_appointment", "Gatekeeper::has_subscription_expired"): ("pn4", ""),
    ("Watcher::get_subscription_info", "Gatekeeper::has_subscription_expired"): ("pn4", ""),
    ("Watcher::get_subscription_info", "Gatekeeper::get_user_info"): ("pn4", ""),
    ("Watcher::store_appointment", "DBM::update_appointment"): ("pn4", ""),
    ("Watcher::store_appointment", "DBM::store_appointment"): ("pn3", ""),
    ("Watcher::store_triggered_appointment", "DBM::store_appointment"): ("pn3", ""),
    ("Watcher::handle_breaches", "DBM::load_appointment"): ("pn4", ""),
    ("Locator::new", "TryInto<U>>::try_into"): ("ok", "slice of constant length LOCATOR_LEN into [u8; LOCATOR_LEN]"),
    # plugin
    ("UserId as std::convert::TryFrom<serde_json::Value>>::try_from", "Vec::<T, A>::pop"): ("ok", "guarded by param_count == 1"),
    ("RegisterParams::new", "param"): ("ok", "operator-supplied RPC parameters"),
    ("RegisterParams as std::convert::TryFrom<serde_json::Value>>::try_from", "slice::<impl [T]>::get"): ("ok", "guarded by the param_count match arm"),
    ("RegisterParams as std::convert::TryFrom<serde_json::Value>>::try_from", "Vec::<T, A>::pop"): ("ok", "guarded by the param_count match arm"),
    ("RegisterParams as std::convert::TryFrom<serde_json::Value>>::try_from", "Iterator>::next"): ("ok", "split() yields at least one item"),
    ("GetAppointmentParams as std::convert::TryFrom<serde_json::Value>>::try_from", "slice::<impl [T]>::get"): ("ok", "guarded by the param_count match arm"),
    ("net::http::send_appointment::{closure#0}", "AppointmentReceipt::signature"): ("ok-with-signature", "receipt built by with_signature in the same body"),
    ("net::http::send_appointment::{closure#0}", "cryptography::recover_pk"): ("pn1", ""),
    ("RetryManager::add_pending_appointments", "HashMap::<K, V, S, A>::get"): ("pn4", ""),
    ("Retrier::start", "WTClient::get_tower_status"): ("pn4", ""),
    ("Retrier::run::{closure#0}", "HashMap::<K, V, S, A>::get"): ("pn4", ""),
    ("Retrier::run::{closure#0}", "DBM::load_appointment"): ("undecided", "pending row implies appointment row (FK); concurrent delete by another tower's retrier not demonstrated"),
    ("WTClient::add_update_tower", "DBM::load_tower_record"): ("ok", "tower in memory implies tower row (PL7 mirror)"),
    ("WTClient::add_update_tower", "DBM::store_tower_record"): ("ok-pl4", "towers row is an upsert; the receipts PK (tower, expiry) is fresh by the strict-extension check (rule PL4)"),
    ("WTClient::add_appointment_receipt", "DBM::store_appointment_receipt"): ("pn3", ""),
    ("WTClient::add_pending_appointment", "DBM::store_pending_appointment"): ("pn3", ""),
    ("WTClient::remove_pending_appointment", "DBM::delete_pending_appointment"): ("undecided", "DELETE cannot violate a key; sqlite I/O only"),
    ("WTClient::add_invalid_appointment", "DBM::store_invalid_appointment"): ("pn3", ""),
    ("WTClient::flag_misbehaving_tower", "DBM::store_misbehaving_proof"): ("pn3", ""),
    ("send_to_retrier", "UnboundedSender::<T>::send"): ("undecided", "fails only if the retry manager task is gone"),
    ("register::{closure#0}", "Plugin::<S>::option"): ("ok", "option registered with a default in main"),
    ("get_tower_info::{closure#0}", "WTClient::get_tower_status"): ("pn4", ""),
    ("retry_tower::{closure#0}", "HashMap::<K, V, S, A>::get"): ("pn4", ""),
    ("abandon_tower::{closure#0}", "WTClient::remove_tower"): ("pn4", ""),
    ("on_commitment_revocation::{closure#0}", "cryptography::encrypt"): ("ok", "encrypting a locally produced transaction"),
}

LOOKUPS = ("HashMap::<K, V, S, A>::get", "HashMap::<K, V, S, A>::get_mut", "HashMap::<K, V, S, A>::remove", "Gatekeeper::has_subscription_expired",
           "Gatekeeper::get_user_info", "WTClient::get_tower_status", "WTClient::load_tower_info", "DBM::load_tracker", "DBM::load_appointment",
           "DBM::load_tower_record", "DBM::get_appointment_length", "DBM::get_appointment_user_and_length", "DBM::load_registration_receipt",
           "DBM::load_appointment_receipt", "DBM::update_appointment", "DBM::update_tracker_status")

# which in-memory map mirrors which table (PL7 / gatekeeper): a None look-up under the map's lock means no row
MIRRORS = {"teos::dbm::DBM::store_user": ("get_mut", "None")}


def _producer(term):
    t = term
    proj = ()
    while isinstance(t, tuple) and t and t[0] == "proj":
        proj = t[2] + proj
        t = t[1]
    if t[0] in ("call", "ret"):
        return t, t[1], proj
    if t[0] == "param":
        return t, "param", proj
    return t, og.show(t)[:40], proj


def _insert_kind(ctx, method):
    """'plain' if the DBM method (or a helper it calls on the same transaction) executes a non-upsert INSERT
    naming a primary-key column; 'upsert' / 'fresh' / None otherwise"""
    P = ctx.prog
    b = P.bodies.get(method)
    if b is None:
        return None
    which = "teos::dbm::TABLES" if method.startswith("teos::") else "watchtower_plugin::dbm::TABLES"
    from .rules_sql import schema
    sch = schema(ctx, which) or {}
    kinds = []
    todo = [b.id] + [c for c, bb, k in ctx.cg.callees(b.id) if c.startswith(("teos::dbm::DBM::", "watchtower_plugin::dbm::DBM::"))]
    for fid in todo:
        ignored = False
        fb = P.bodies[fid]
        # a helper whose error the caller discards (`.ok()`) cannot make the caller fail
        if fid != b.id:
            for bb in sites(b, fid):
                dest = b.term(bb)["dest"]
                users = [t2 for bb2, t2 in b.calls() if any("Result::<T, E>::ok" in n for n in call_names(t2)) and has_call(ctx.og.operand(b, t2["args"][0]), fid.split("::")[-1])]
                if users:
                    ignored = True
        if ignored:
            continue
        for bb, st in sql.body_sql(fb):
            c = sql.classify(st)
            if c["kind"] != "insert":
                continue
            if c["upsert"]:
                kinds.append("upsert")
                continue
            t = sch.get(c["table"], {})
            if t.get("autoincrement") and not (set(t.get("pk", [])) & set(c["columns"])):
                kinds.append("fresh")
            else:
                kinds.append("plain:%s" % c["table"])
    plain = [k for k in kinds if k.startswith("plain")]
    if plain:
        return plain[0]
    if "fresh" in kinds:
        return "fresh"
    if "upsert" in kinds:
        return "upsert"
    return None


def _taint_sources(ctx):
    """(body id, param index) pairs whose value a remote party controls"""
    src = set()
    for r in R.public_api_roots(ctx.prog):
        src.add((r, 2))
    return src


def _tainted(ctx, term, sources):
    for t in og.walk(term):
        if isinstance(t, tuple) and t and t[0] == "param" and (t[1], t[2]) in sources:
            return "request"
        if isinstance(t, tuple) and t and t[0] in ("call", "ret") and isinstance(t[1], str) and ("reqwest::Response::json" in t[1] or "process_post_response" in t[1]):
            return "tower reply"
        if isinstance(t, tuple) and t and t[0] in ("call", "ret") and isinstance(t[1], str) and (
                "SpvClient" in t[1] and t[1].endswith("poll_best_tip") or "BlockSource>::get_" in t[1] or "bitcoincore_rpc::RpcApi::" in t[1] or t[1].endswith("RpcClient::call_method")):
            return "Bitcoin node's reply"
    return None


def _same_section(ctx, b, bb, lookup_term):
    """membership of the looked-up key was established under a guard still held at the look-up"""
    fs = facts_at(ctx, b, bb)
    bl = ctx.locks.locks(b.id)
    held_now = bl.held_at_term(bb)
    for f in fs:
        if f[0] == "truth" and f[2] is True or f[0] == "variant" and f[2] in ("Some", "Occupied"):
            for c in og.walk(f[1]):
                if isinstance(c, tuple) and c and c[0] in ("call", "ret") and c[3][0] == b.id and any(x in c[1] for x in ("contains_key", "::get", "load_tower_info", "get_tower_status", "::entry")):
                    for tb in [x for x in b.rpo() if b.orig(x) == c[3][1]]:  # (site ids are original block numbers)
                        common = {l for l in bl.held_at_term(tb) if l in held_now}
                        if common and bb in b.reachable(tb):
                            between = ctx.locks._between(b, tb, bb)
                            if any(all(l in bl.held_at_term(x) for x in between) for l in common):
                                return "membership tested at bb%d under the same guard" % b.orig(tb)
        if f[0] == "variant" and f[2] == "Vacant":
            pass
    # not Vacant => Occupied: `if let Vacant = entry {..} else { get().unwrap() }` under one &mut self
    for f in fs:
        if f[0] == "variant_in" and "Occupied" in f[2] and len(f[2]) == 1:
            return "entry not vacant on this path (single-threaded &mut self)"
    before = ctx.pf.called_before(b).get(bb, set())
    if any(n.endswith("::insert") and "HashMap" in n for n in before) and held_now:
        return "key inserted earlier in the same critical section"
    return None


DB_FORMS = {"ConfirmedIn", "InMempoolSince"}
STATUS_ADT = "teos::responder::ConfirmationStatus"


def _status_variants(ctx, term, depth=0):
    """variants a ConfirmationStatus-valued origin term can take (None = unknown / any)"""
    t = og.strip(term)
    if not isinstance(t, tuple) or not t or depth > 4:
        return None
    if t[0] == "agg" and t[1] == STATUS_ADT:
        return {t[2]}
    if t[0] == "phi":
        out = set()
        for a in t[1]:
            v = _status_variants(ctx, a, depth + 1)
            if v is None:
                return None
            out |= v
        return out
    if t[0] == "call" and t[1] in ctx.prog.bodies:
        cb = ctx.prog.bodies[t[1]]
        ret = ctx.og.local(cb, 0)
        aggs = {x[2] for x in og.walk(ret) if isinstance(x, tuple) and x and x[0] == "agg" and x[1] == STATUS_ADT}
        # anything in the return that is neither such an aggregate, a recursive call nor a read of the callee's own memo is unknown
        return aggs or None
    return None


def _status_without_db_form(ctx, b, call_term):
    """variants without a DB form that the status argument of this update_tracker_status call may carry, given the branch facts at the call"""
    args = call_term[2] if call_term[0] == "call" else call_term[4]
    if len(args) < 3:
        return {"<unknown>"}
    st = args[2]
    vs = _status_variants(ctx, st)
    if vs is None:
        return {"<unknown>"}
    site = call_term[3]
    sb = ctx.prog.bodies.get(site[0])
    if sb is not None:
        sst = og.strip(st)
        for x in sb.rpo():
            if sb.orig(x) != site[1]:
                continue
            for f in ctx.pf.facts_in(sb).get(x, ()):
                if f[0] in ("variant", "variant_in") and og.strip(f[1]) == sst:
                    vs = vs & ({f[2]} if f[0] == "variant" else set(f[2]))
    return vs - DB_FORMS


def rule_PN_tower(ctx, tier):
    return rule_PN(ctx, tier, scope="tower")


def rule_PN_plugin(ctx, tier):
    return rule_PN(ctx, tier, scope="plugin")


def rule_PN2(ctx, tier):
    return rule_PN(ctx, tier, scope="tower", only=("pn2",), name="PN2")


def rule_PN(ctx, tier, scope="all", only=None, name=None):
    rr = RuleResult(name or {"all": "PN", "tower": "PNt", "plugin": "PNp"}[scope], "no request, reply, replayed insert or stale look-up reaches an unwrap (every unwrap reachable from a thread root classified)")
    P = ctx.prog
    roots, kinds = R.root_kinds(P, ctx.cg)
    sources = _taint_sources(ctx)
    counts = {}
    for bid, b in P.bodies.items():
        ks = kinds.get(bid)
        if not ks:
            continue
        is_plugin = bool(ks & {"RPC", "MANAGER", "RETRIER"}) and not (ks & {"API", "CHAIN"})
        if scope == "tower" and is_plugin or scope == "plugin" and not is_plugin and not (ks & {"RPC", "MANAGER", "RETRIER"}):
            continue
        bl = ctx.locks.locks(bid)
        for bb, t in b.calls():
            if t.get("x"):
                continue
            if any("HashMap" in n and "Index" in n and n.endswith("::index") for n in call_names(t)) and not only:
                ikey = "%s<-map[index]" % shortfn(bid)
                before = ctx.pf.called_before(b).get(bb, set())
                if bid.endswith("Watcher::get_breaches::{closure#0}"):
                    rr.ok(ikey + "[ok: the DB returns a subset of the locators it was asked for]", nontrivial=False)
                elif any(n.endswith(("::get_mut", "::insert", "::contains_key")) and "HashMap" in n for n in before) and bl.classes_at_term(bb):
                    rr.ok(ikey + ": key looked up earlier in the same critical section", sample={"rule": "PN", "site": ikey, "class": "map index", "discharge": "same critical section"})
                else:
                    rr.fail("unguarded-map-index:%s" % shortfn(bid), "`%s` indexes a HashMap with `[..]` (panics if the key is absent) and nothing in the same critical section establishes the key" % shortfn(bid), where=b.line_of(bb))
                continue
            if not (call_names(t) & UNW):
                continue
            term = ctx.origins(0).operand(b, t["args"][0])
            pt, pname, proj = _producer(term)
            held = sorted(R.short(c) for c in bl.classes_at_term(bb))
            where = b.line_of(bb)
            # ---- automatic classes
            if pname.startswith(("std::sync::Mutex", "std::sync::RwLock", "std::sync::Condvar")):
                counts["poison-only"] = counts.get("poison-only", 0) + 1
                continue
            if pname.startswith("rusqlite::"):
                counts["sqlite-io"] = counts.get("sqlite-io", 0) + 1
                continue
            if ("::dbm::DBM::" in bid) and (pname == "param" or pname.endswith(("::from_slice", "consensus::deserialize"))):
                counts["db-row-decoding"] = counts.get("db-row-decoding", 0) + 1
                continue
            entry = None
            for (fs, ps), v in TABLE.items():
                if bid.endswith(fs) and (pname.endswith(ps) or (ps == "param" and pname == "param")):
                    entry = v
            key = "%s<-%s" % (shortfn(bid), shortfn(pname))
            if entry is None:
                # not in the confirmed table: judge by the producer's kind (new code is held to the same rules)
                if "::dbm::DBM::" in pname and _insert_kind(ctx, pname) and str(_insert_kind(ctx, pname)).startswith("plain"):
                    entry = ("pn3", "auto")
                elif pname.endswith(LOOKUPS):
                    entry = ("pn4", "auto")
            if entry is None:
                taint = _tainted(ctx, ctx.og.operand(b, t["args"][0]), sources)
                if taint:
                    rr.fail("remote-unwrap:%s" % key, "`%s` unwraps `%s`, whose outcome depends on the %s; a crafted message aborts the handler%s" % (shortfn(bid), og.show(term)[:120], taint, (" while holding {%s} (poisoning)" % ", ".join(held)) if held else ""), where=where)
                else:
                    counts["unclassified"] = counts.get("unclassified", 0) + 1
                    rr.notes.append("unclassified unwrap (not tainted): %s at %s" % (key, where))
                continue
            cls, reason = entry
            if only and cls not in only:
                continue
            if cls in ("ok", "undecided"):
                counts[cls] = counts.get(cls, 0) + 1
                rr.ok("%s[%s]" % (key, cls), nontrivial=False)
                continue
            if cls == "ok-signed":
                # the receipt reaching this unwrap was signed on every path that returns it
                prod_fn = "teos::watcher::Watcher::register" if "RegistrationReceipt" in pname else "teos::watcher::Watcher::add_appointment"
                signer = "RegistrationReceipt::sign" if "RegistrationReceipt" in pname else "AppointmentReceipt::sign"
                pb = P.require(prod_fn)
                okb = [x for x in pb.rpo() for s_ in pb.blocks[x]["s"] if s_["k"] == "assign" and s_["d"] == [0] and s_["rv"]["k"] == "agg" and s_["rv"].get("variant") == "Ok"]
                cb = ctx.pf.called_before(pb)
                if okb and all(any(n.endswith(signer) for n in cb.get(x, set())) for x in okb):
                    rr.ok("%s: signature set before the receipt is returned" % key)
                else:
                    rr.fail("unsigned-receipt-unwrap:%s" % key, "`%s` unwraps the receipt signature but `%s` can return a receipt that was never signed" % (shortfn(bid), shortfn(prod_fn)), where=where)
                continue
            if cls == "ok-with-signature":
                rec = find_calls(term, "signature")
                src = og.show(rec[0][2][0] if rec and rec[0][0] == "call" else term)
                if "with_signature" in src:
                    rr.ok("%s: signature is Some by construction (with_signature)" % key)
                else:
                    rr.fail("signature-unwrap:%s" % key, "unwrap of a receipt signature that is not set by with_signature in the same body", where=where)
                continue
            if cls == "ok-const-status":
                st = find_calls(term, "load_trackers_with_confirmation_status")
                a = (st[0][2] if st[0][0] == "call" else st[0][4])[1] if st else None
                if a and a[0] == "agg" and a[2] in ("ConfirmedIn", "InMempoolSince"):
                    rr.ok("%s: status argument is %s(_)" % (key, a[2]))
                else:
                    rr.fail("status-unwrap:%s" % key, "load_trackers_with_confirmation_status(..).unwrap() with a status that may be neither ConfirmedIn nor InMempoolSince", where=where)
                continue
            if cls == "ok-pl4":
                rr.ok("%s: discharged by PL4" % key, nontrivial=False)
                continue
            if cls == "pn1":
                rr.fail("remote-unwrap:%s" % key, "`%s` unwraps `%s` computed from the tower's reply: a reply with an undecodable signature panics the client%s" % (shortfn(bid), shortfn(pname), (" while holding {%s}" % ", ".join(held)) if held else ""), where=where)
                continue
            if cls == "pn2":
                _pn2(ctx, rr, b, bb, key, reason, where)
                continue
            if cls == "pn3":
                _pn3(ctx, rr, b, bb, key, pt, pname, held, where)
                continue
            if pname.endswith("DBM::update_tracker_status") and pt[0] in ("call", "ret"):
                # second failure mode of this method: a status without a database form (MissingField)
                bad = _status_without_db_form(ctx, b, pt)
                if bad and cls != "undecided":
                    rr.fail("status-without-db-form:%s" % shortfn(bid), "`%s` unwraps `update_tracker_status(.., status)` where the status can be %s, which has no database form (the method answers Err(MissingField)): the thread panics%s" % (
                        shortfn(bid), sorted(bad), (" while holding {%s} (poisoning them)" % ", ".join(held)) if held else ""), where=where)
                    continue
                elif not bad:
                    rr.ok("%s: status always has a database form" % key, nontrivial=False)
            if cls == "pn4":
                why = _same_section(ctx, b, bb, term)
                # DB methods that are written right after a successful read of the same key in the same section
                owner = b.id.split("::{closure")[0]  # a closure of an iterator chain runs in its function's critical section
                if why is None and pname.endswith(("update_tracker_status", "update_appointment", "load_tracker")) and owner.endswith(("check_confirmations", "rebroadcast_stale_txs", "store_appointment")):
                    # key drawn from a query / existence test made under the same, still held DBM guard
                    lk = [x for x in sites(b, "std::sync::Mutex::<T>::lock")]
                    guard_ok = R.CLASSES["DBM"] in bl.classes_at_term(bb) and len([1 for (bi, _, c, _, _) in ctx.locks.acquire_sites if bi.split("::{closure")[0] == owner and c == R.CLASSES["DBM"]]) == 1
                    if guard_ok:
                        why = "key read under the same DBM guard (single acquisition in this function)"
                if why is None and b.id.endswith("handle_reorged_txs") and pname.endswith("update_tracker_status"):
                    if "teos::dbm::DBM::load_tracker" in ctx.pf.called_before(b).get(bb, set()):
                        why = "tracker loaded under the same DBM guard just before"
                if why:
                    rr.ok("%s: %s" % (key, why), sample={"rule": "PN", "site": key, "class": "look-up", "discharge": why})
                else:
                    rr.fail("stale-lookup:%s" % key,
                            "`%s` unwraps `%s` for a key whose presence was established in an earlier critical section / earlier event; a concurrent or intervening removal makes it None and the handler panics%s" % (
                                shortfn(bid), shortfn(pname), (" while holding {%s} (poisoning them)" % ", ".join(held)) if held else ""), where=where)
                continue
    rr.notes.append("auto-classified: %s" % counts)
    rr.require_floor({"all": 45, "tower": 26, "plugin": 20}[scope] if not only else 3, "classified unwrap sites")
    return rr


def _pn2(ctx, rr, b, bb, key, what, where):
    """the HTTP handler that forwards to this gRPC method rejects the failing shape first"""
    P = ctx.prog
    meth = b.id.split(">>::")[-1].split("::")[0]
    h = P.bodies.get("teos::api::http::%s::{closure#0}" % meth)
    if h is None:
        rr.anchor_missing("teos::api::http::%s" % meth)
        return
    grpc = sites_containing(h, "PublicTowerServicesClient", "::" + meth)
    if not grpc:
        rr.fail("pn2:no-forward:%s" % meth, "http::%s does not forward to the gRPC method" % meth, where=h.span)
        return
    for g in grpc:
        fs = facts_at(ctx, h, g)
        if what == "appointment present":
            ok = any(f[0] == "variant" and f[2] == "Some" and og.show(f[1]).endswith("f:appointment") for f in fs)
            msg = "`req.appointment` is Some"
        else:
            ok = False
            for f in fs:
                if f[0] == "truth" and f[1][0] == "bin" and f[1][1] in ("Ne", "Eq"):
                    l, r = og.show(f[1][2]), og.show(f[1][3])
                    is_len = ("len" in l and "f:locator" in l) or ("len" in r and "f:locator" in r)
                    k = const_of(f[1][3]) or const_of(f[1][2])
                    if is_len and k and k[1] == "teos_common::appointment::LOCATOR_LEN" and ((f[1][1] == "Ne" and f[2] is False) or (f[1][1] == "Eq" and f[2] is True)):
                        ok = True
            msg = "`locator.len() == LOCATOR_LEN`"
        if ok:
            rr.ok("%s validated by http::%s (%s)" % (key, meth, msg), sample={"rule": "PN", "unwrap": key, "validated before forwarding": msg})
        else:
            rr.fail("unvalidated:%s" % key, "the internal API unwraps this on request data, but `http::%s` forwards the request on a path where %s is not established: a crafted body aborts the gRPC handler" % (meth, msg), where=where)


def _pn3(ctx, rr, b, bb, key, pt, pname, held, where):
    kind = _insert_kind(ctx, pname)
    if kind in ("upsert", "fresh", None):
        rr.ok("%s: insert is %s" % (key, kind or "not an insert"), sample={"rule": "PN", "site": key, "insert": kind})
        return
    site = pt[3] if pt[0] == "call" else pt[3]
    sb = b.block_of_site(site[1], toward=bb) if site[0] == b.id else bb
    fs = facts_at(ctx, b, sb)
    bl = ctx.locks.locks(b.id)
    # (a) existence test with the not-exists edge, under the same continuously held guard
    for f in fs:
        if f[0] == "truth" and f[2] is False:
            for c in og.walk(f[1]):
                if isinstance(c, tuple) and c and c[0] == "call" and c[1].endswith("_exists") and c[3][0] == b.id:
                    tb = b.block_of_site(c[3][1], toward=sb)
                    common = [l for l in bl.held_at_term(tb) if l in bl.held_at_term(sb)]
                    between = ctx.locks._between(b, tb, sb)
                    if any(all(l in bl.held_at_term(x) for x in between) for l in common):
                        rr.ok("%s: insert only if `%s` == false under the same guard" % (key, shortfn(c[1])), sample={"rule": "PN", "site": key, "insert": kind, "discharge": "existence test in the same critical section"})
                        return
    # (b) mirror map says absent, under the map's guard
    mir = MIRRORS.get(pname)
    if mir:
        for f in fs:
            if f[0] == "variant" and f[2] == mir[1] and has_call(f[1], mir[0]):
                if R.CLASSES["users"] in bl.classes_at_term(sb):
                    rr.ok("%s: in-memory mirror has no entry (under its lock)" % key)
                    return
    rr.fail("replayed-insert:%s" % key,
            "`%s` unwraps `%s`, a plain SQL INSERT (%s) that fails with AlreadyExists when the same key is stored again, and nothing in this critical section rules that out: a repeated request / notification panics the handler%s" % (
                shortfn(b.id), shortfn(pname), kind, (" while holding {%s}, poisoning them so that every later request panics too" % ", ".join(held)) if held else ""), where=where)
