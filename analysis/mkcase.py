"""helper: python3 -m analysis.mkcase <dir> <name> <file> '<old>' '<new>' [more file old new ...] -- builds patch.diff from string edits on a scratch copy"""
import os, shutil, subprocess, sys, json
VERIF = os.path.dirname(os.path.dirname(os.path.abspath(__file__)))
def make(dirname, name, edits, meta):
    sc = os.path.join(VERIF, ".cache", "mk", name)
    shutil.rmtree(sc, ignore_errors=True)
    os.makedirs(sc + "/a"); os.makedirs(sc + "/b")
    files = sorted({e[0] for e in edits})
    for f in files:
        for side in ("a", "b"):
            os.makedirs(os.path.dirname(os.path.join(sc, side, f)), exist_ok=True)
            shutil.copy(os.path.join("/repo", f), os.path.join(sc, side, f))
    for f, old, new in edits:
        p = os.path.join(sc, "b", f)
        s = open(p).read()
        assert s.count(old) == 1, (name, f, s.count(old), old[:60])
        open(p, "w").write(s.replace(old, new))
    r = subprocess.run(["diff", "-ruN", "a", "b"], cwd=sc, stdout=subprocess.PIPE, text=True)
    out = os.path.join(VERIF, dirname, name)
    os.makedirs(out, exist_ok=True)
    open(os.path.join(out, "patch.diff"), "w").write(r.stdout)
    json.dump(meta, open(os.path.join(out, "meta.json"), "w"), indent=1)
    shutil.rmtree(sc, ignore_errors=True)
