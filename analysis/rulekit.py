"""Small helpers shared by the rule modules."""
from .facts import call_names, call_target
from . import origin as og


def sites(body, *names, suffix=False):
    """[bb] of calls whose callee (resolved or generic path) is one of names"""
    out = []
    for bb, t in body.calls():
        ns = call_names(t)
        if suffix:
            if any(n.endswith(names) for n in ns):
                out.append(bb)
        elif ns & set(names):
            out.append(bb)
    return out


def sites_containing(body, *frags):
    out = []
    for bb, t in body.calls():
        if any(all(f in n for f in frags) for n in call_names(t)):
            out.append(bb)
    return out


def arg_origin(ctx, body, bb, i, depth=3):
    t = body.term(bb)
    args = t.get("args", [])
    if i >= len(args):
        return ("top", "noarg")
    return ctx.origins(depth).operand(body, args[i])


def dest_origin(ctx, body, bb):
    t = body.term(bb)
    return ctx.og.place(body, t["dest"])


def has_call(term, *frags):
    """does the origin term mention a call whose target contains all fragments?"""
    for c in og.calls_in(term):
        if all(f in c for f in frags):
            return True
    return False


def find_calls(term, *frags):
    out = []
    for t in og.walk(term):
        if isinstance(t, tuple) and t and t[0] in ("call", "ret") and isinstance(t[1], str) and all(f in t[1] for f in frags):
            out.append(t)
    return out


def const_of(term):
    """(value, def) if the term is a constant (through casts), else None"""
    while isinstance(term, tuple) and term and term[0] == "cast":
        term = term[1]
    if isinstance(term, tuple) and term and term[0] == "const":
        return term[1], term[2]
    return None


def facts_at(ctx, body, bb):
    return ctx.pf.facts_in(body).get(bb, set())


def variant_fact(ctx, body, bb, variant, *subject_frags, proj_suffix=None):
    """is there a must-fact `<subject> is <variant>` at bb whose subject mentions a call containing all frags?"""
    for f in facts_at(ctx, body, bb):
        if f[0] == "variant" and f[2] == variant:
            if not subject_frags or has_call(f[1], *subject_frags):
                return True
    return False


def truth_fact(ctx, body, bb, *subject_frags):
    """True/False if a must-fact truth(<subject>)==v holds at bb, with subject mentioning the call; else None"""
    for f in facts_at(ctx, body, bb):
        if f[0] == "truth" and has_call(f[1], *subject_frags):
            return f[2]
    return None


def truth_facts(ctx, body, bb):
    return [(f[1], f[2]) for f in facts_at(ctx, body, bb) if f[0] == "truth"]


def subject_is_call(term, *frags):
    """is the fact subject *itself* the result of a call to <frags> (through `?`, map_err, inlining), rather than some
    value that merely contains such a call?"""
    t = og.strip(term)
    while isinstance(t, tuple) and t:
        if t[0] == "branch":
            t = og.strip(t[1])
        elif t[0] == "call" and t[1].split("::")[-1] in ("map_err", "clone", "as_ref", "borrow") and t[2]:
            t = og.strip(t[2][0])
        else:
            break
    return isinstance(t, tuple) and bool(t) and t[0] == "call" and all(f in t[1] for f in frags)


def switch_succ_with(ctx, body, kind, value, *subject_frags, exact=False):
    """[(switch bb, successor bb)] for switch edges carrying fact (kind, subject~frags, value)"""
    out = []
    for bb in body.rpo():
        if body.term(bb)["k"] != "switch":
            continue
        for succ, facts in ctx.pf.switch_facts(body, bb).items():
            for f in facts:
                if f[0] == kind and f[2] == value and (not subject_frags or (subject_is_call(f[1], *subject_frags) if exact else has_call(f[1], *subject_frags))):
                    if (bb, succ) not in out:
                        out.append((bb, succ))
    return out


def reach_without_edges(body, start, target, cut_edges, stop=None):
    """is `target` reachable from `start` along normal edges other than those in cut_edges (a set of (bb, succ)),
    not continuing through blocks for which stop(bb) holds?"""
    seen, st = set(), [start]
    while st:
        x = st.pop()
        if x in seen:
            continue
        seen.add(x)
        if x == target:
            return True
        if stop and stop(x) and x != start:
            continue
        for s in body.succ(x):
            if (x, s) not in cut_edges:
                st.append(s)
    return False


def always_reaches(body, starts, target_bbs, fail=None):
    """every normal path from each start block hits a block in target_bbs before hitting a `fail` block
    or a return (diverging paths are vacuous)"""
    target_bbs = set(target_bbs)
    memo = {}

    def ok(bb):
        if bb in memo:
            return memo[bb] is not False
        if bb in target_bbs:
            memo[bb] = True
            return True
        if body.term(bb)["k"] == "return" or (fail and fail(bb)):
            memo[bb] = False
            return False
        memo[bb] = None
        res = True
        for s in body.succ(bb):
            if not ok(s):
                res = False
                break
        memo[bb] = res
        return res
    return all(ok(s) for s in starts)


def is_iter_next(body, bb):
    t = body.term(bb)
    return t["k"] == "call" and any(n.endswith("::next") and "Iterator" in n for n in call_names(t))


def loc(body, bb=None):
    return body.span if bb is None else body.line_of(bb)


def shortfn(x):
    return x.split("::", 1)[-1] if x else x


_NEG = {"Lt": "Ge", "Le": "Gt", "Gt": "Le", "Ge": "Lt", "Eq": "Ne", "Ne": "Eq"}
_SWAP = {"Lt": "Gt", "Le": "Ge", "Gt": "Lt", "Ge": "Le", "Eq": "Eq", "Ne": "Ne"}


def rel_of_term(term, truth=True):
    """normalise a boolean origin term built from a comparison into [(op, lhs, rhs)] (both orientations);
    op in Lt/Le/Gt/Ge/Eq/Ne means `lhs op rhs` holds"""
    while isinstance(term, tuple) and term and term[0] == "un" and term[1] == "Not":
        term, truth = term[2], not truth
    if isinstance(term, tuple) and len(term) >= 5 and term[0] == "ret" and "PartialEq" in term[1] and term[1].split("::")[-1] in ("eq", "ne") \
            and isinstance(term[4], tuple) and len(term[4]) == 2:
        # a derived comparison whose body was followed: the call is what matters
        term = ("bin", "Eq" if term[1].endswith("::eq") else "Ne", term[4][0], term[4][1])
    if isinstance(term, tuple) and term and term[0] == "call" and "PartialEq" in term[1] and term[1].split("::")[-1] in ("eq", "ne") and len(term[2]) == 2:
        # `a == b` / `a != b` on a type whose comparison is a trait call
        term = ("bin", "Eq" if term[1].endswith("::eq") else "Ne", term[2][0], term[2][1])
    if not (isinstance(term, tuple) and term and term[0] == "bin" and term[1] in _NEG):
        return []
    op = term[1] if truth else _NEG[term[1]]
    return [(op, term[2], term[3]), (_SWAP[op], term[3], term[2])]


def relations(ctx, body, bb):
    """comparison facts known to hold at bb, normalised"""
    out = []
    for f in facts_at(ctx, body, bb):
        if f[0] == "truth":
            out.extend(rel_of_term(f[1], f[2]))
    return out


def enumerate_paths(ctx, body, starts, stop=None, budget=60000):
    """acyclic normal paths from each start block to a return (or a block where stop(bb) holds).
    yields (tuple of blocks, frozenset of edge facts met on the way, ended_at_return)"""
    left = [budget]
    sf_cache = {}

    def sf(bb):
        if bb not in sf_cache:
            sf_cache[bb] = ctx.pf.switch_facts(body, bb) if body.term(bb)["k"] == "switch" else {}
        return sf_cache[bb]
    out = []

    def whole(op):
        if isinstance(op, dict):
            for k_ in ("m", "c"):
                v = op.get(k_)
                if isinstance(v, list) and len(v) == 1 and isinstance(v[0], int):
                    return v[0]
        return None

    def dfs(bb, path, facts, bools):
        left[0] -= 1
        if left[0] < 0:
            raise RuntimeError("path budget exhausted in %s" % body.id)
        path = path + (bb,)
        if stop and stop(bb):
            out.append((path, frozenset(facts), False))
            return
        # flags set to a constant on this path (`let go = match x { A => true, B => false }; if go {..}`) decide later tests
        bools = dict(bools)
        for st_ in body.blocks[bb]["s"]:
            if st_.get("k") == "assign" and len(st_["d"]) == 1:
                rv = st_["rv"]
                if rv.get("k") == "use" and isinstance(rv.get("o"), dict) and isinstance(rv["o"].get("k"), dict) and rv["o"]["k"].get("ty") == "bool" and ("bool" in rv["o"]["k"] or "int" in rv["o"]["k"]):
                    bools[st_["d"][0]] = bool(rv["o"]["k"].get("bool", rv["o"]["k"].get("int")))
                elif rv.get("k") == "use" and whole(rv.get("o")) in bools:
                    bools[st_["d"][0]] = bools[whole(rv["o"])]
                else:
                    bools.pop(st_["d"][0], None)
        t = body.term(bb)
        if t["k"] == "return":
            out.append((path, frozenset(facts), True))
            return
        if t["k"] == "call" and isinstance(t.get("dest"), list) and len(t["dest"]) == 1:
            bools.pop(t["dest"][0], None)
        succs = body.succ(bb)
        if t["k"] == "switch" and t.get("dty") == "bool" and whole(t.get("d")) in bools:
            val = 1 if bools[whole(t["d"])] else 0
            hit = [tg for v, tg in t["targets"] if v == val]
            succs = hit[:1] if hit else [t["otherwise"]]
        for s in succs:
            if s in path:
                continue
            dfs(s, path, facts | set(sf(bb).get(s, ())), bools)
    for st in starts:
        dfs(st, (), set(), {})
    return out


def generated_keys_persisted(ctx, rr, crate_prefixes, store_fn, who):
    """every `get_random_keypair()` in the given crates is followed, on every path to a return, by `store_fn` of the generated
    secret key: an identity that is used but not persisted is a different identity after the next restart"""
    P = ctx.prog
    n = 0
    for bid, b in sorted(P.bodies.items()):
        if not bid.startswith(crate_prefixes) or "::tests" in bid or "test_utils" in bid:
            continue
        for bb, t in b.calls():
            if not (call_target(t) or "").endswith("cryptography::get_random_keypair"):
                continue
            n += 1
            stores = []
            for sb, st in b.calls():
                if (call_target(st) or "") == store_fn and any(has_call(arg_origin(ctx, b, sb, i), "get_random_keypair") for i in range(len(st["args"]))):
                    stores.append(sb)
            nxt = b.succ(bb)
            if stores and always_reaches(b, nxt, stores):
                rr.ok("%s: the generated key is persisted (%s) on every path" % (shortfn(bid), shortfn(store_fn)))
            else:
                rr.fail("generated-key-not-persisted:%s" % shortfn(bid), "`%s` generates a fresh %s key that is not handed to `%s` on every path: it is used for this run and gone after a restart (a new identity, old receipts no longer verify)" % (shortfn(bid), who, shortfn(store_fn)), where=b.line_of(bb))
    if n == 0:
        rr.fail("generated-key:no-site", "no key generation site found for the %s" % who)


def reaches_unless(ctx, body, starts, targets, stops, exempt_edge):
    """every path from `starts` hits a block of `targets` before a block of `stops` / a return, except through switch edges whose
    edge facts satisfy exempt_edge(facts)"""
    targets, stops = set(targets), set(stops)
    memo = {}

    def ok(bb):
        if bb in memo:
            return memo[bb] is not False
        if bb in targets:
            memo[bb] = True
            return True
        if bb in stops or body.term(bb)["k"] == "return":
            memo[bb] = False
            return False
        memo[bb] = None
        res = True
        sf = ctx.pf.switch_facts(body, bb) if body.term(bb)["k"] == "switch" else {}
        for s_ in body.succ(bb):
            if exempt_edge(sf.get(s_, ())):
                continue
            if not ok(s_):
                res = False
                break
        memo[bb] = res
        return res
    return all(ok(s_) for s_ in starts)


def some_iff_nonempty(ctx, rr, body, label):
    """a helper that reports `Option<Vec<_>>` reports Some(list) for a NON-empty list: its callers act (delete, refund, drop) only on
    Some, so the inverted test makes them act on nothing and skip everything.  Judged for the two spellings in use
    (`(!v.is_empty()).then_some(v)` and `if v.is_empty() { None } else { Some(v) }`); other spellings are not judged."""
    ret = ctx.og.local(body, 0)
    alts = ret[1] if isinstance(ret, tuple) and ret and ret[0] == "phi" else (ret,)
    judged = 0
    for a in alts:
        a = og.strip(a)
        if isinstance(a, tuple) and a and a[0] == "call" and a[1].endswith("::then_some") and len(a[2]) == 2:
            cond, v = og.strip(a[2][0]), og.strip(a[2][1])
            neg = 0
            while isinstance(cond, tuple) and cond and cond[0] == "un" and cond[1] == "Not":
                cond, neg = og.strip(cond[2]), neg + 1
            if isinstance(cond, tuple) and cond and cond[0] == "call" and cond[1].endswith("::is_empty") and og.strip(cond[2][0]) == v:
                judged += 1
                if neg % 2 == 1:
                    rr.ok("%s: Some(list) iff the list is not empty" % label)
                else:
                    rr.fail("%s:some-iff-empty" % label, "`%s` answers Some(list) exactly when the list is EMPTY and None when it has entries: the caller, which deletes / refunds / drops only on Some, never sees them" % shortfn(body.id), where=body.span)
    for bb in body.rpo():
        for st in body.blocks[bb]["s"]:
            if st["k"] == "assign" and st["d"] == [0] and st["rv"]["k"] == "agg" and st["rv"].get("variant") == "Some":
                vals = [f[2] for f in facts_at(ctx, body, bb) if f[0] == "truth" and has_call(f[1], "is_empty")]
                if vals:
                    judged += 1
                    if all(v_ is False for v_ in vals):
                        rr.ok("%s: Some(list) only under !is_empty" % label)
                    else:
                        rr.fail("%s:some-iff-empty" % label, "`%s` answers Some(list) on a path where the list was found EMPTY" % shortfn(body.id), where=body.line_of(bb))
    return judged


RECORD_CTORS = {
    "tower": ("teos::gatekeeper::UserInfo::new", "teos::responder::TransactionTracker::new", "teos::responder::PenaltySummary::new", "teos::watcher::Breach::new",
              "teos_common::appointment::Appointment::new", "teos_common::receipts::AppointmentReceipt::new", "teos_common::receipts::AppointmentReceipt::with_signature",
              "teos_common::receipts::RegistrationReceipt::new", "teos_common::receipts::RegistrationReceipt::with_signature"),
    "client": ("watchtower_plugin::TowerSummary::new", "watchtower_plugin::TowerSummary::with_appointments", "watchtower_plugin::TowerInfo::new", "watchtower_plugin::MisbehaviorProof::new",
               "teos_common::appointment::Appointment::new", "teos_common::receipts::AppointmentReceipt::new", "teos_common::receipts::AppointmentReceipt::with_signature",
               "teos_common::receipts::RegistrationReceipt::new", "teos_common::receipts::RegistrationReceipt::with_signature"),
}


def ctors_keep_args(ctx, rr, side):
    """the plain constructors of the records that get stored, signed, loaded and reported keep what they are given: a field named like
    a parameter holds that parameter (as it is, wrapped in Some, or through a one-argument conversion such as NetAddr::new) — a
    constructor that normalises, filters or combines its arguments makes what is reloaded / signed differ from what was stored / sent"""
    P = ctx.prog
    n = 0
    for fn in RECORD_CTORS[side]:
        b = P.bodies.get(fn)
        if b is None:
            rr.anchor_missing(fn)
            continue
        ret = og.strip(ctx.og.local(b, 0))
        if not (isinstance(ret, tuple) and ret and ret[0] == "agg"):
            rr.fail("ctor:shape:%s" % shortfn(fn), "`%s` does not return a plain record" % shortfn(fn), where=b.span)
            continue
        names = {b.locals[i].get("name"): i for i in range(1, b.argc + 1)}
        bad = []
        for fname, val in ret[3]:
            if fname not in names:
                continue
            want = ("param", b.id, names[fname])
            v = og.strip(val)
            ok = v == want
            if not ok and isinstance(v, tuple) and v and v[0] == "agg" and any(og.strip(x_[1]) == want for x_ in v[3]):
                ok = True   # Some(param), or a wrapper record that holds the parameter itself (NetAddr { net_addr, addr_type })
            if not ok and isinstance(v, tuple) and v and v[0] == "ret" and isinstance(v[2], tuple):
                inner = og.strip(v[2])
                if isinstance(inner, tuple) and inner and inner[0] == "agg" and any(og.strip(x_[1]) == want for x_ in inner[3]):
                    ok = True
            if not ok and isinstance(v, tuple) and v and v[0] in ("call", "ret"):
                args = v[2] if v[0] == "call" else (v[4] if len(v) > 4 and isinstance(v[4], tuple) else ())
                if len(args) == 1 and og.strip(args[0]) == want and v[1].split("::")[-1] in ("new", "from", "into", "to_owned", "clone", "to_string"):
                    ok = True
            n += 1
            if not ok:
                bad.append("%s = %s" % (fname, og.show(val)[:60]))
        if bad:
            rr.fail("ctor-alters-argument:%s:%s" % (shortfn(fn), bad[0].split(" = ")[0]), "`%s` does not keep its arguments as given (%s)" % (shortfn(fn), "; ".join(bad)), where=b.span)
        else:
            rr.ok("%s keeps its arguments" % shortfn(fn))
    return n


_ACC_CONV = ("clone", "as_ref", "as_str", "to_owned", "copied", "as_deref", "to_string", "as_slice", "borrow", "deref", "cloned")


def accessors_return_field(ctx, rr, owners):
    """a method `T::f(&self)` of a record type with a field `f` returns that field (as it is, or through clone / as_ref / ...): callers
    rely on it for what was signed, stored or just set — e.g. `with_signature(..)` followed by `signature().unwrap()`"""
    P = ctx.prog
    n = 0
    for bid, b in sorted(P.bodies.items()):
        if b.kind != "method" or b.argc != 1 or "::tests" in bid:
            continue
        owner, last = bid.rsplit("::", 1)
        if owner not in owners:
            continue
        adt = P.adts.get(owner)
        if not adt or adt["kind"] != "struct" or last not in [f["name"] for f in adt["variants"][0]["fields"]]:
            continue
        t = og.strip(ctx.og.local(b, 0))
        while isinstance(t, tuple) and t and t[0] in ("call", "ret"):
            args = t[2] if t[0] == "call" else (t[4] if len(t) > 4 and isinstance(t[4], tuple) else ())
            if len(args) == 1 and t[1].split("::")[-1] in _ACC_CONV:
                t = og.strip(args[0])
            else:
                break
        ok = isinstance(t, tuple) and t and t[0] == "proj" and og.strip(t[1]) == ("param", b.id, 1) and [e for e in t[2] if isinstance(e, str) and e.startswith("f:")][-1:] == ["f:" + last]
        n += 1
        if ok:
            rr.ok("%s returns the field" % shortfn(bid))
        else:
            rr.fail("accessor-alters-field:%s" % shortfn(bid), "`%s` does not return the `%s` field as it is (%s): callers that set or signed the field and read it back through the accessor see something else" % (shortfn(bid), last, og.show(ctx.og.local(b, 0))[:70]), where=b.span)
    return n


# ------------------------------------------------------------------------------------------------------------------
# a tiny evaluator for unsigned 32-bit origin terms: a comparison extracted from the code is judged on a grid of
# boundary points instead of by its spelling, so `h >= e.saturating_add(d)`, `h.checked_sub(e).map_or(false, ..)`-free
# rewrites and `h - d >= e`-style rearrangements are accepted or refused for what they compute
U32 = 1 << 32


class Wraps(Exception):
    """the term contains a plain +, - or * that leaves the u32 range at this point (wraps in release, panics in debug)"""


_INT_RANGE = {"u8": (0, 1 << 8), "u16": (0, 1 << 16), "u32": (0, 1 << 32), "u64": (0, 1 << 64), "usize": (0, 1 << 64),
              "i8": (-(1 << 7), 1 << 7), "i16": (-(1 << 15), 1 << 15), "i32": (-(1 << 31), 1 << 31), "i64": (-(1 << 63), 1 << 63), "isize": (-(1 << 63), 1 << 63)}


def _int_ty(term):
    """integer type of a term as far as the term says: constants and casts carry it, an operation has that of its operands,
    leaves (fields, parameters) are u32 unless wrapped in a cast"""
    if isinstance(term, tuple) and term:
        if term[0] == "const" and len(term) > 3 and term[3] in _INT_RANGE:
            return term[3]
        if term[0] == "cast" and term[2] in _INT_RANGE:
            return term[2]
        if term[0] == "bin":
            return _int_ty(term[2])
        if term[0] == "proj" and term[2] in (("f:0",),) and isinstance(term[1], tuple) and term[1][0] == "bin":
            return _int_ty(term[1])
    return "u32"


def eval_u32(term, leaf):
    """value of an integer origin term; `leaf(term)` gives the value of a parameter / field or None.
    returns an int, or None when the term uses something this evaluator does not know; raises Wraps.
    Plain `+ - *` are judged in the type of their operands (an `as i64` widening makes room for a negative difference),
    `as` casts to a narrower type wrap silently, as they do in Rust."""
    v = leaf(term)
    if v is not None:
        return v
    if not (isinstance(term, tuple) and term):
        return None
    k = term[0]
    if k == "const":
        try:
            return int(term[1])
        except (TypeError, ValueError):
            d = str(term[2] or "")
            return U32 - 1 if d.endswith("u32::MAX") or d.endswith("::MAX") and "u32" in d else None
    if k == "cast":
        x = eval_u32(term[1], leaf)
        if x is None or term[2] not in _INT_RANGE:
            return x
        lo, hi = _INT_RANGE[term[2]]
        return (x - lo) % (hi - lo) + lo
    if k == "proj":
        # (a + b) in a build with overflow checks is AddWithOverflow(a, b).0
        if term[2] in (("f:0",),) and isinstance(term[1], tuple) and term[1][0] == "bin":
            return eval_u32(term[1], leaf)
        return None
    if k == "bin":
        a, b = eval_u32(term[2], leaf), eval_u32(term[3], leaf)
        if a is None or b is None:
            return None
        op = term[1].replace("WithOverflow", "").replace("Unchecked", "")
        r = {"Add": a + b, "Sub": a - b, "Mul": a * b}.get(op)
        if r is None:
            return None
        lo, hi = _INT_RANGE[_int_ty(term)]
        if not lo <= r < hi:
            raise Wraps(op)
        return r
    if k in ("call", "ret"):
        name = term[1] if isinstance(term[1], str) else ""
        args = term[2] if k == "call" else (term[4] if len(term) > 4 else ())
        tail = name.split("::")[-1]
        if tail in ("saturating_add", "saturating_sub", "wrapping_add", "wrapping_sub", "min", "max", "abs_diff") and len(args) == 2:
            a, b = eval_u32(args[0], leaf), eval_u32(args[1], leaf)
            if a is None or b is None:
                return None
            lo, hi = _INT_RANGE[_int_ty(args[0])]
            return {"saturating_add": min(a + b, hi - 1), "saturating_sub": max(a - b, lo), "wrapping_add": (a + b - lo) % (hi - lo) + lo,
                    "wrapping_sub": (a - b - lo) % (hi - lo) + lo, "min": min(a, b), "max": max(a, b), "abs_diff": abs(a - b)}[tail]
        if tail in ("unwrap_or",) and len(args) == 2 and isinstance(args[0], tuple) and args[0][0] == "call" \
                and args[0][1].split("::")[-1] in ("checked_add", "checked_sub") and len(args[0][2]) == 2:
            a, b = eval_u32(args[0][2][0], leaf), eval_u32(args[0][2][1], leaf)
            d = eval_u32(args[1], leaf)
            if a is None or b is None or d is None:
                return None
            r = a + b if args[0][1].endswith("checked_add") else a - b
            lo, hi = _INT_RANGE[_int_ty(args[0][2][0])]
            return r if lo <= r < hi else d
        if tail in ("try_from", "try_into") or (tail in ("unwrap_or", "unwrap_or_default") and False):
            return None
    return None


def eval_u32_rel(rel, leaf):
    """truth of (op, lhs, rhs) at a point; None if unknown; raises Wraps"""
    op, l, r = rel
    a, b = eval_u32(l, leaf), eval_u32(r, leaf)
    if a is None or b is None:
        return None
    return {"Lt": a < b, "Le": a <= b, "Gt": a > b, "Ge": a >= b, "Eq": a == b, "Ne": a != b}[op]
