"""Fact loader: the resolved program as extracted by the rustc_private driver."""
import json
import os
from collections import defaultdict

from . import extract


class Body:
    __slots__ = ("id", "crate", "kind", "parent", "root", "span", "argc", "locals", "blocks", "upvars",
                 "is_async", "impl_ty", "impl_trait", "vis", "stage", "_preds", "_defs", "_rpo")

    def __init__(self, crate, d):
        self.id = d["id"]
        self.crate = crate
        self.kind = d["kind"]
        self.parent = d.get("parent")
        self.root = d.get("root")
        self.span = d["span"]
        self.argc = d["argc"]
        self.locals = d["locals"]
        self.blocks = d["blocks"]
        self.upvars = d.get("upvars", [])
        self.is_async = d.get("is_async", False)
        self.impl_ty = d.get("impl_ty")
        self.impl_trait = d.get("impl_trait")
        self.vis = d.get("vis")
        self.stage = d["stage"]
        self._preds = None
        self._defs = None
        self._rpo = None

    # ---- CFG ----
    def term(self, bb):
        return self.blocks[bb].get("t") or {"k": "unreachable"}

    def succ(self, bb, unwind=False):
        t = self.term(bb)
        k = t["k"]
        out = []
        if k == "goto":
            out.append(t["t"])
        elif k == "switch":
            seen = set()
            for _, b in t["targets"]:
                if b not in seen:
                    seen.add(b)
                    out.append(b)
            if t["otherwise"] not in seen:
                out.append(t["otherwise"])
        elif k in ("call", "drop", "assert", "yield"):
            if t.get("t") is not None:
                out.append(t["t"])
        if unwind and t.get("u") is not None:
            out.append(t["u"])
        return out

    def edges(self, bb):
        """(label, successor) for normal edges; label is ('sw', value) / ('sw', 'otherwise') / None"""
        t = self.term(bb)
        if t["k"] == "switch":
            out = [(("sw", v), b) for v, b in t["targets"]]
            out.append((("sw", "otherwise"), t["otherwise"]))
            return out
        return [(None, s) for s in self.succ(bb)]

    def preds(self):
        if self._preds is None:
            p = defaultdict(list)
            for i in range(len(self.blocks)):
                for s in self.succ(i):
                    p[s].append(i)
            self._preds = p
        return self._preds

    def reachable(self, start=0, unwind=False, stop=None):
        seen = set()
        st = [start]
        while st:
            b = st.pop()
            if b in seen:
                continue
            seen.add(b)
            if stop and stop(b):
                continue
            st.extend(self.succ(b, unwind))
        return seen

    def rpo(self):
        if self._rpo is None:
            seen, order = set(), []
            st = [(0, iter(self.succ(0)))]
            seen.add(0)
            while st:
                b, it = st[-1]
                adv = False
                for s in it:
                    if s not in seen:
                        seen.add(s)
                        st.append((s, iter(self.succ(s))))
                        adv = True
                        break
                if not adv:
                    order.append(b)
                    st.pop()
            self._rpo = list(reversed(order))
        return self._rpo

    def return_blocks(self):
        return [i for i in self.rpo() if self.term(i)["k"] == "return"]

    def calls(self, include_unreachable=False):
        blocks = range(len(self.blocks)) if include_unreachable else self.rpo()
        for i in blocks:
            t = self.term(i)
            if t["k"] in ("call", "tailcall"):
                yield i, t

    def orig(self, bb):
        """index of the block this one was cloned from (trace partitioning), else itself"""
        return self.blocks[bb].get("orig", bb)

    def block_of_site(self, orig, toward=None):
        """current block for an origin-term site (original block number); with several clones prefer one that reaches `toward`"""
        cl = [i for i, b in enumerate(self.blocks) if b.get("orig", i) == orig and i in set(self.rpo())]
        if not cl:
            return orig if orig < len(self.blocks) else 0
        if toward is not None:
            for c in cl:
                if toward in self.reachable(c):
                    return c
        return cl[0]

    def is_cleanup(self, bb):
        return bool(self.blocks[bb].get("cleanup"))

    # ---- defs ----
    def defs(self):
        """local -> list of ('stmt', bb, idx, stmt) | ('call', bb, term) | ('yield', bb, term) definitions
        of the *whole* local (projection-free destination)."""
        if self._defs is None:
            d = defaultdict(list)
            pd = defaultdict(list)
            seen_orig = set()
            for i, b in enumerate(self.blocks):
                if "orig" in b:
                    if b["orig"] in seen_orig or b["orig"] < 0:
                        continue  # a clone of a block already visited: same statements, same definitions
                    seen_orig.add(b["orig"])
                for j, s in enumerate(b["s"]):
                    if s["k"] == "assign":
                        if len(s["d"]) == 1:
                            d[s["d"][0]].append(("stmt", i, j, s))
                        else:
                            pd[s["d"][0]].append(("stmt", i, j, s))
                t = b.get("t")
                if t and t["k"] == "call":
                    if len(t["dest"]) == 1:
                        d[t["dest"][0]].append(("call", i, t))
                    else:
                        pd[t["dest"][0]].append(("call", i, t))
                if t and t["k"] == "yield":
                    if len(t["resume_arg"]) == 1:
                        d[t["resume_arg"][0]].append(("yield", i, t))
            self._defs = (d, pd)
        return self._defs[0]

    def partial_defs(self):
        self.defs()
        return self._defs[1]

    def local_ty(self, l):
        return self.locals[l]["ty"]

    def local_name(self, l):
        return self.locals[l].get("name")

    def line_of(self, bb):
        return self.term(bb).get("line", self.span)

    def short(self):
        return self.id


def call_target(t):
    """The most precise callee path of a call terminator (impl method when resolved)."""
    return t.get("rcallee") or t.get("callee")


def call_names(t):
    return {x for x in (t.get("rcallee"), t.get("callee")) if x}


class Program:
    def __init__(self, facts_dir=None, digest=None):
        self.facts_dir = facts_dir
        self.digest = digest
        self.bodies = {}
        self.adts = {}
        self.consts = {}
        self.crates = {}
        for c in extract.EXPECTED_CRATES:
            with open(os.path.join(facts_dir, c + ".json")) as fh:
                d = json.load(fh)
            self.crates[c] = {"n_bodies": len(d["bodies"]), "crate_type": d["crate_type"]}
            for b in d["bodies"]:
                body = Body(c, b)
                if body.id in self.bodies:
                    # generic impls of the same name on different types: keep both under distinct keys
                    k = 2
                    while "%s#%d" % (body.id, k) in self.bodies:
                        k += 1
                    body.id = "%s#%d" % (body.id, k)
                self.bodies[body.id] = body
            for a in d["adts"]:
                self.adts[a["path"]] = a
            for k in d["consts"]:
                self.consts[k["path"]] = k
        self._children = None
        self._callers = None

    @classmethod
    def load(cls, force=False):
        d, digest, fresh, secs = extract.ensure_facts(force=force)
        p = cls(d, digest)
        p.extract_info = {"fresh": fresh, "seconds": round(secs, 2)}
        return p

    def body(self, bid):
        return self.bodies.get(bid)

    def require(self, bid):
        b = self.bodies.get(bid)
        if b is None:
            raise AnchorMissing(bid)
        return b

    def find(self, suffix):
        return [b for k, b in self.bodies.items() if k.endswith(suffix)]

    def children(self, bid):
        """closures / coroutines nested directly in a body"""
        if self._children is None:
            ch = defaultdict(list)
            for b in self.bodies.values():
                if b.parent:
                    ch[b.parent].append(b.id)
            self._children = ch
        return self._children.get(bid, [])

    def family(self, bid):
        """a body and all closures/coroutines (transitively) nested in it"""
        out, st = [], [bid]
        while st:
            x = st.pop()
            if x in self.bodies:
                out.append(x)
            st.extend(self.children(x))
        return out

    def async_body(self, bid):
        """for an `async fn`, the coroutine that holds its real body; otherwise the body itself"""
        b = self.require(bid)
        if b.is_async:
            for c in self.children(bid):
                if self.bodies[c].kind == "coroutine":
                    return self.bodies[c]
        return b

    def callers(self):
        if self._callers is None:
            c = defaultdict(list)
            for b in self.bodies.values():
                for bb, t in b.calls():
                    for n in call_names(t):
                        c[n].append((b.id, bb))
            self._callers = c
        return self._callers

    def const_value(self, path):
        k = self.consts.get(path)
        if k is None:
            raise AnchorMissing("const " + path)
        if "int" in k:
            return k["int"]
        if "str" in k:
            return k["str"]
        if "bool" in k:
            return k["bool"]
        return None


class AnchorMissing(Exception):
    pass
