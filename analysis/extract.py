"""Fact extraction: runs the rustc_private driver over /repo's current working tree.

Fail-closed plumbing (DESIGN 2.1): fresh fact directory per extraction, member
fingerprints removed so cargo cannot skip the wrapper, one fact file per expected
crate asserted, facts keyed by a hash of the repository sources.
"""
import fcntl
import hashlib
import json
import os
import shutil
import subprocess
import sys
import time

VERIF = os.path.dirname(os.path.dirname(os.path.abspath(__file__)))
REPO = os.environ.get("TEOS_REPO", "/repo")
CACHE = os.path.join(VERIF, ".cache")
DRIVER_DIR = os.path.join(VERIF, "driver")
DRIVER = os.path.join(DRIVER_DIR, "target", "debug", "teos-facts")
TARGET = os.path.join(CACHE, "target")
FACTS = os.environ.get("VERIF_FACTS_CACHE") or os.path.join(CACHE, "facts")
EXPECTED_CRATES = ["teos_common", "teos", "teosd", "teos_cli", "watchtower_plugin", "watchtower_client"]
MEMBER_PKGS = ["teos-common", "teos", "watchtower-plugin"]
# floors on bodies per crate, counted on the pinned tree (a wrapper that silently
# analysed less than this did not see the program)
BODY_FLOORS = {"teos_common": 400, "teos": 700, "teosd": 10, "teos_cli": 4, "watchtower_plugin": 200, "watchtower_client": 40}


def nightly_sysroot():
    return subprocess.check_output(["rustc", "+nightly", "--print", "sysroot"], text=True).strip()


def source_digest():
    """Hash of everything that can influence the compiled program."""
    h = hashlib.sha256()
    files = []
    for root, dirs, fs in os.walk(REPO):
        dirs[:] = [d for d in dirs if d not in ("target", ".git", "node_modules")]
        for f in fs:
            if f.endswith((".rs", ".toml", ".proto", ".lock")):
                files.append(os.path.join(root, f))
    for p in sorted(files):
        h.update(p.encode())
        h.update(b"\0")
        with open(p, "rb") as fh:
            h.update(fh.read())
        h.update(b"\0")
    # the driver itself is part of the key
    for p in ("src/main.rs", "src/json.rs"):
        with open(os.path.join(DRIVER_DIR, p), "rb") as fh:
            h.update(fh.read())
    return h.hexdigest()


def build_driver():
    srcs = [os.path.join(DRIVER_DIR, "src", f) for f in os.listdir(os.path.join(DRIVER_DIR, "src"))]
    if os.path.exists(DRIVER) and all(os.path.getmtime(DRIVER) >= os.path.getmtime(s) for s in srcs):
        return
    env = dict(os.environ, CARGO_NET_OFFLINE="true")
    env.pop("RUSTC", None)
    env.pop("RUSTC_WORKSPACE_WRAPPER", None)
    r = subprocess.run(["cargo", "+nightly", "build", "--offline"], cwd=DRIVER_DIR, env=env,
                       stdout=subprocess.PIPE, stderr=subprocess.STDOUT, text=True)
    if r.returncode != 0:
        sys.stderr.write(r.stdout)
        raise SystemExit("driver build failed")


def run_extract(facts_dir):
    ns = nightly_sysroot()
    env = dict(os.environ)
    env.update({
        "LD_LIBRARY_PATH": ns + "/lib" + (":" + env["LD_LIBRARY_PATH"] if env.get("LD_LIBRARY_PATH") else ""),
        "RUSTC": ns + "/bin/rustc",
        "RUSTC_WORKSPACE_WRAPPER": DRIVER,
        "TEOS_FACTS_DIR": facts_dir,
        "CARGO_TARGET_DIR": TARGET,
        "RUSTFLAGS": "-Zmir-opt-level=0 -Awarnings",
        "CARGO_NET_OFFLINE": "true",
    })
    env.pop("RUSTUP_TOOLCHAIN", None)
    # make cargo re-run the wrapper for the workspace members
    fp = os.path.join(TARGET, "debug", ".fingerprint")
    if os.path.isdir(fp):
        for d in os.listdir(fp):
            if any(d.startswith(p + "-") for p in MEMBER_PKGS):
                shutil.rmtree(os.path.join(fp, d), ignore_errors=True)
    r = subprocess.run(["cargo", "check", "--offline", "--locked", "--workspace"], cwd=REPO, env=env,
                       stdout=subprocess.PIPE, stderr=subprocess.STDOUT, text=True)
    return r


def ensure_facts(force=False, quiet=False):
    """Returns (facts_dir, digest, extracted_now, seconds)."""
    os.makedirs(CACHE, exist_ok=True)
    t0 = time.time()
    with open(os.path.join(CACHE, "extract.lock"), "w") as lk:
        fcntl.flock(lk, fcntl.LOCK_EX)
        build_driver()
        digest = source_digest()
        stamp = os.path.join(FACTS, "DIGEST")
        if not force and os.path.exists(stamp) and open(stamp).read().strip() == digest and \
                all(os.path.exists(os.path.join(FACTS, c + ".json")) for c in EXPECTED_CRATES):
            return FACTS, digest, False, time.time() - t0
        tmp = FACTS + ".new"
        shutil.rmtree(tmp, ignore_errors=True)
        os.makedirs(tmp)
        r = run_extract(tmp)
        if r.returncode != 0:
            sys.stderr.write(r.stdout[-6000:])
            raise SystemExit("fact extraction failed: /repo does not type-check under the driver")
        missing = [c for c in EXPECTED_CRATES if not os.path.exists(os.path.join(tmp, c + ".json"))]
        if missing:
            sys.stderr.write(r.stdout[-3000:])
            raise SystemExit("fact extraction incomplete, no facts for: %s" % missing)
        for c in EXPECTED_CRATES:
            with open(os.path.join(tmp, c + ".json")) as fh:
                n = len(json.load(fh)["bodies"])
            if n < BODY_FLOORS[c]:
                raise SystemExit("fact extraction: crate %s has %d bodies < floor %d" % (c, n, BODY_FLOORS[c]))
        with open(os.path.join(tmp, "DIGEST"), "w") as fh:
            fh.write(digest)
        shutil.rmtree(FACTS, ignore_errors=True)
        os.rename(tmp, FACTS)
        if not quiet:
            sys.stderr.write("[extract] facts re-extracted in %.1fs (digest %s)\n" % (time.time() - t0, digest[:12]))
        return FACTS, digest, True, time.time() - t0


if __name__ == "__main__":
    d, dig, fresh, secs = ensure_facts(force="--force" in sys.argv)
    print(d, dig, fresh, "%.1fs" % secs)
