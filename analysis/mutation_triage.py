"""Triage of the mutants the sweep leaves silent (read one by one): (file suffix, set of lines or None) -> reason."""
T = [
    ("teos/src/watcher.rs", {140}, "log only: is_fresh() feeds the 'Fresh bootstrap' log line"),
    ("teos/src/responder.rs", {170}, "log only: is_fresh()"),
    ("teos/src/responder.rs", {283}, "log only: missed-confirmation count in a log line"),
    ("teos/src/chain_monitor.rs", {90}, "log only: wording of the worse-tip warning"),
    ("teos/src/tx_index.rs", {201}, "log only: mismatch warning after pop_back"),
    ("teos/src/tx_index.rs", {121}, "construction-time sanity panic on unchained bootstrap blocks; killed by the test suite"),
    ("teos/src/config.rs", {284, 294}, "log only: is_default / log_non_default_options"),
    ("teos/src/config.rs", {330}, "btc_rpc_port default 0 means 'choose by network' (CF checks the == 0 test and the table, not the sentinel)"),
    ("teos/src/gatekeeper.rs", {218}, "stricter than the property: refuses an appointment that fits exactly (C07 only forbids going negative)"),
    ("teos/src/bitcoin_cli.rs", {121}, "outside the properties: bitcoind / teosd network match at start-up (survives the test suite too: reported in DESIGN as an observation)"),
    ("teos/src/main.rs", {209, 212, 219, 247, 250}, "pruned-mode / short-chain arithmetic at start-up: no property clause states these bounds; not decided"),
    ("teos/src/main.rs", {73, 82, 107, 172, 234, 252, 280, 381, 428, 71, 105}, "start-up diagnostics: exit codes and directory creation"),
    ("teos/src/main.rs", {121}, "log only"),
    ("teos/src/main.rs", {178}, "URL scheme normalisation of btc_rpc_connect: outside the properties"),
    ("teos/src/main.rs", {352}, "Tor address announcement: outside the properties"),
    ("teos/src/main.rs", {414, 439, 440, 441, 443}, "task lifecycle (waiting for / joining the API tasks): outside the properties"),
    ("teos/src/api/http.rs", {19, 20, 21, 22}, "request-size limits: the property says 'a body of acceptable size', not the byte count (HT1 checks each route has its limit)"),
    ("teos/src/api/http.rs", {286}, "error text trimming: wording only"),
    ("teos/src/api/http.rs", {316, 322}, "start-up retry delay / ready signal: lifecycle"),
    ("teos/src/api/internal.rs", {405}, "shutdown trigger of the stop command: lifecycle"),
    ("teos/src/api/tor.rs", None, "Tor control connection: outside the properties"),
    ("teos/src/dbm.rs", {90}, "redundant with the bundled sqlite default (SQLITE_DEFAULT_FOREIGN_KEYS=1); SQ1 fails only if the pragma is switched OFF"),
    ("teos/src/dbm.rs", {342, 608, 194, 432, 481}, "SQL text assembled at run time (locator filter, IN lists): a wrong fragment makes rusqlite refuse the statement and the unwrap panic; killed by the test suite; only counted by SQ8"),
    ("teos/src/dbm.rs", {362, 495, 693}, "loader loop bodies (row -> returned collection): per-row insertion is not modelled; killed by the test suite"),
    ("teos/src/dbm.rs", {171, 353, 395, 619, 684, 152, 300, 464, 489, 566, 661, 718, 745, 216, 225, 383}, "position of a key / single column read whose landing place has no name (map key, plain value): in range, role unknown to SQ7; a wrong type is a run-time error, killed by the test suite"),
    ("teos-common/src/ser.rs", None, "serde adapters: element emission inside a loop; WT2 checks the adapter pairing, killed by the test suite"),
    ("teos-common/src/lib.rs", {74, 84}, "RPC parameter parsing of UserId::try_from(json): outside the properties"),
    ("teos-common/src/net/mod.rs", None, "Tor / clearnet address type: outside the properties (the predicates themselves are PT's)"),
    ("teos-common/src/cryptography.rs", {89}, "length of the random seed for a fresh key: a wrong length loops for ever at key generation; killed by the test suite"),
    ("watchtower-plugin/src/retrier.rs", {150, 19, 172}, "timing constants / boundary of the auto-retry delay: 'within the configured delays' is not decided"),
    ("watchtower-plugin/src/retrier.rs", {105}, "defensive branch 'data sent to an idle retrier' (cannot happen: PL6's send gates): log + continue"),
    ("watchtower-plugin/src/net/http.rs", {172}, "proxy selection for onion addresses: outside the properties"),
    ("watchtower-plugin/src/main.rs", {110}, "URL scheme normalisation in registertower: outside the properties"),
    ("watchtower-plugin/src/main.rs", {122, 123}, "status after a failed registertower: not judged"),
    ("watchtower-plugin/src/main.rs", {493, 504}, "status write in the hook before queueing: Retrier::start flags the tower itself (PL6 start:tower-status); near-equivalent"),
    ("watchtower-plugin/src/main.rs", {445}, "hard-coded to_self_delay of the appointment: no property clause"),
    ("watchtower-plugin/src/convert.rs", None, "RPC parameter parsing of the plugin commands: outside the properties"),
    ("watchtower-plugin/src/wt_client.rs", {92, 94}, "start-up diagnostics"),
    ("watchtower-plugin/src/dbm.rs", {109}, "redundant with the bundled sqlite default"),
    ("watchtower-plugin/src/dbm.rs", {204, 295, 369, 558}, "loader loop bodies: per-row insertion is not modelled; killed by the test suite"),
    ("watchtower-plugin/src/dbm.rs", {366, 554, 555, 556, 606, 137, 270, 399, 479, 487}, "position read whose landing place has no name, or a statement assembled at run time: in range; a wrong type is a run-time error"),
    ("watchtower-plugin/src/dbm.rs", {488}, "default of the invalid-references count when the query fails: unreachable without a broken schema"),
    ("watchtower-plugin/src/ser.rs", None, "serde adapters of the RPC output: element emission inside a loop"),
    ("teos/src/gatekeeper.rs", {303}, "index 0 of the one-element list under the len == 1 guard"),
]


def reason(file, line):
    for f, lines, why in T:
        if file.endswith(f) and (lines is None or line in lines):
            return why
    return ""
