"""Rule framework: results, known findings, evidence, reports."""
import hashlib
import json
import os
import time

VERIF = os.path.dirname(os.path.dirname(os.path.abspath(__file__)))
KNOWN = os.path.join(VERIF, "known_findings.json")


class Finding:
    def __init__(self, rule, key, msg, where=None, detail=None):
        self.rule = rule
        self.key = key          # stable, line-free identification of the violating construct
        self.msg = msg
        self.where = where      # file:line (reporting only)
        self.detail = detail or {}

    def as_dict(self):
        return {"rule": self.rule, "key": self.key, "msg": self.msg, "where": self.where, "detail": self.detail}


class RuleResult:
    """Outcome of one rule: obligations (instances checked), how many needed a path/lock/origin
    argument (nontrivial), findings, and a few written-out samples."""

    def __init__(self, rule, title):
        self.rule = rule
        self.title = title
        self.obligations = 0
        self.nontrivial = set()
        self.findings = []
        self.samples = []
        self.notes = []
        self.floor = None

    def ok(self, instance, nontrivial=True, sample=None):
        self.obligations += 1
        if nontrivial:
            self.nontrivial.add(str(instance))
        if sample is not None and len(self.samples) < 4:
            self.samples.append(sample)
        elif sample is None and len(self.samples) < 2:
            self.samples.append({"rule": self.rule, "instance": str(instance), "verdict": "holds"})

    def fail(self, key, msg, where=None, detail=None, nontrivial=True):
        self.obligations += 1
        if nontrivial:
            self.nontrivial.add(str(key))
        self.findings.append(Finding(self.rule, key, msg, where, detail))

    def require_floor(self, n, what):
        """Fail closed when a rule matched fewer instances than were confirmed by hand."""
        self.floor = n
        if self.obligations < n:
            self.findings.append(Finding(self.rule, "floor:%s" % what,
                                         "rule matched %d instances of %s, fewer than the %d confirmed by reading: the rule no longer sees the code it was written for" % (self.obligations, what, n)))

    def anchor_missing(self, what):
        self.findings.append(Finding(self.rule, "anchor-missing:%s" % what,
                                     "anchor `%s` not found in the extracted program (renamed or removed): rule cannot be evaluated, failing closed" % what))


def load_known():
    if not os.path.exists(KNOWN):
        return {"open": [], "fixed": []}
    with open(KNOWN) as fh:
        return json.load(fh)


def run_property(pid, rules, ctx, tier, level_text, assumptions, explanation, seed=0, extra=None):
    """rules: list of callables(ctx, tier) -> RuleResult | [RuleResult]"""
    t0 = time.time()
    results = []
    for r in rules:
        try:
            out = r(ctx, tier)
        except Exception as e:  # fail closed, but say which rule broke
            from .facts import AnchorMissing
            rr = RuleResult(getattr(r, "__name__", "rule"), "internal")
            if isinstance(e, AnchorMissing):
                rr.anchor_missing(str(e))
            else:
                import traceback
                rr.findings.append(Finding(rr.rule, "internal-error:%s" % type(e).__name__,
                                           "rule crashed: %s\n%s" % (e, traceback.format_exc()[-1500:])))
            out = rr
        if isinstance(out, RuleResult):
            out = [out]
        results.extend(out)

    known = load_known()
    open_keys = {}
    for k in known.get("open", []):
        if pid in k.get("properties", [k.get("property")]):
            open_keys[(k["rule"], k["key"])] = k
    violations, known_hits = [], []
    for rr in results:
        for f in rr.findings:
            k = open_keys.get((f.rule, f.key))
            if k is not None:
                known_hits.append((f, k))
            else:
                violations.append(f)

    OUT = os.environ.get("VERIF_OUT_DIR") or VERIF
    os.makedirs(os.path.join(OUT, "reports"), exist_ok=True)
    os.makedirs(os.path.join(OUT, "evidence"), exist_ok=True)
    lines = []
    for f, k in known_hits:
        lines.append("KNOWN-FINDING: property=%s rule=%s %s" % (pid, f.rule, k["what_fails"]))
    for f in violations:
        h = hashlib.sha1(("%s|%s|%s" % (pid, f.rule, f.key)).encode()).hexdigest()[:10]
        path = os.path.join(OUT, "reports", "%s-%s-%s.json" % (pid, f.rule, h))
        with open(path, "w") as fh:
            json.dump({"property": pid, "finding": f.as_dict(), "facts_digest": ctx.prog.digest,
                       "replay": "cd /verif && ./check %s --tier %s   # deterministic: same tree => same finding" % (pid, tier)}, fh, indent=1)
        lines.append("  [%s] %s: %s%s" % (f.rule, f.key, f.msg, (" (%s)" % f.where) if f.where else ""))
        lines.append("VIOLATION property=%s replay=%s" % (pid, path))

    obligations = sum(rr.obligations for rr in results)
    discharged = obligations - sum(1 for rr in results for f in rr.findings if not f.key.startswith(("floor:", "anchor-missing:", "internal-error:")))
    nontrivial = set()
    for rr in results:
        nontrivial |= {rr.rule + ":" + x for x in rr.nontrivial}
    samples = []
    for rr in results:
        samples.extend(rr.samples[:2])
    ev = {
        "property_id": pid,
        "tier": tier,
        "seed": seed,
        "level": "other",
        "coverage": {
            "explanation": explanation,
            "obligations": obligations,
            "discharged": discharged,
            "evaluations": obligations,
            "distinct_nontrivial": len(nontrivial),
            "rule": "one evaluation = one rule instance (a call site, path query, lock pair, table row or origin query) discovered in the extracted MIR of /repo on this run; non-trivial = its discharge needed a path, lock-set or origin argument rather than a presence test; distinct by (rule, instance key)",
            "samples": samples[:12],
            "exhaustive": True,
            "rules": [{"rule": rr.rule, "title": rr.title, "obligations": rr.obligations, "floor": rr.floor,
                       "findings": [f.as_dict() for f in rr.findings], "notes": rr.notes} for rr in results],
            "analysed": {"crates": ctx.prog.crates, "bodies": len(ctx.prog.bodies),
                         "call_edges": sum(len(v) for v in ctx.cg.out.values()),
                         "facts_digest": ctx.prog.digest, "extraction": getattr(ctx.prog, "extract_info", {}),
                         "helpers_not_on_reference_tree": getattr(ctx, "inline_report", {})},
            "known_findings_hit": [{"rule": f.rule, "key": f.key, "what_fails": k["what_fails"]} for f, k in known_hits],
            "trusted_base": ["rustc 1.97-nightly MIR construction (mir_built) and trait resolution", "the fact extractor /verif/driver", "callback summaries and thread-root tables in /verif/analysis"],
            "checker_cmd": "./check %s --tier %s" % (pid, tier),
            "thorough": extra or None,
        },
        "assumptions": assumptions,
        "wall_s": round(time.time() - t0 + ctx.extract_seconds, 3),
        "violations": len(violations),
    }
    with open(os.path.join(OUT, "evidence", "%s.json" % pid), "w") as fh:
        json.dump(ev, fh, indent=1)
    return results, violations, known_hits, lines
