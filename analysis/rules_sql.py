"""Storage rules SQ1-SQ3 over the SQL literals compiled into the two DBM modules."""
from .facts import call_names, call_target
from .framework import RuleResult
from . import origin as og
from . import sql, origin as og
from .rulekit import sites, sites_containing, arg_origin, shortfn, always_reaches, variant_fact

TDBM = "teos::dbm::DBM::"
PDBM = "watchtower_plugin::dbm::DBM::"


def schema(ctx, path):
    k = ctx.prog.consts.get(path)
    if not k or "strs" not in k:
        return None
    out = {}
    for st in k["strs"]:
        c = sql.parse_create(st)
        if c:
            out[c["table"]] = c
    return out


def _sqlite_fk_default_on(fn):
    """is rusqlite built with the `bundled` feature for the crate of `fn` (libsqlite3-sys then compiles sqlite with
    -DSQLITE_DEFAULT_FOREIGN_KEYS=1)?  Read from the crate's Cargo.toml, which is part of the build."""
    import os
    import re as _re
    from .extract import REPO
    crate = "teos" if fn.startswith("teos::") else "watchtower-plugin"
    try:
        txt = open(os.path.join(REPO, crate, "Cargo.toml")).read()
    except OSError:
        return False
    m = _re.search(r"rusqlite\s*=\s*\{[^}]*features\s*=\s*\[([^\]]*)\]", txt)
    return bool(m and "bundled" in m.group(1))


def rule_SQ1(ctx, tier):
    rr = RuleResult("SQ1", "referential actions: owner removal cascades; foreign keys are switched on in the production constructors")
    tw = schema(ctx, "teos::dbm::TABLES")
    pl = schema(ctx, "watchtower_plugin::dbm::TABLES")
    if tw is None or pl is None:
        rr.anchor_missing("TABLES constants")
        return rr

    def need(sch, table, col, ref, which):
        t = sch.get(table)
        if not t:
            rr.fail("%s:no-table:%s" % (which, table), "table %s missing from the %s schema" % (table, which))
            return
        hit = [f for f in t["fks"] if col in f[0] and f[1] == ref]
        if hit and hit[0][3] == "CASCADE":
            rr.ok("%s: %s.%s -> %s ON DELETE CASCADE" % (which, table, col, ref), sample={"rule": "SQ1", "schema": which, "fk": "%s(%s) -> %s" % (table, col, ref), "on delete": "CASCADE"})
        elif hit:
            rr.fail("%s:fk-no-cascade:%s.%s" % (which, table, col), "%s.%s references %s without ON DELETE CASCADE (action `%s`): removing the owner leaves dangling rows / is refused" % (table, col, ref, hit[0][3]))
        else:
            rr.fail("%s:no-fk:%s.%s" % (which, table, col), "%s.%s is not declared as a foreign key to %s: owner removal does not remove these rows" % (table, col, ref))
    need(tw, "appointments", "user_id", "users", "tower")
    need(tw, "trackers", "UUID", "appointments", "tower")
    for t in ("pending_appointments", "invalid_appointments", "registration_receipts", "appointment_receipts"):
        need(pl, t, "tower_id", "towers", "client")
    need(pl, "pending_appointments", "locator", "appointments", "client")
    need(pl, "invalid_appointments", "locator", "appointments", "client")
    need(pl, "misbehaving_proofs", "tower_id", "appointment_receipts", "client")
    # every client table with a tower_id column is tied to towers (directly or through appointment_receipts)
    for name, t in pl.items():
        if "tower_id" in t["columns"] and name != "towers":
            tied = any("tower_id" in f[0] and f[1] in ("towers", "appointment_receipts") and f[3] == "CASCADE" for f in t["fks"])
            if tied:
                rr.ok("client: %s tied to its tower" % name)
            else:
                rr.fail("client:untied:%s" % name, "client table %s has a tower_id column that does not cascade from towers: abandoning a tower leaves its rows behind" % name)
    # primary keys the rest of the analysis relies on
    pk_want = {("tower", "users"): ["user_id"], ("tower", "appointments"): ["UUID"], ("tower", "trackers"): ["UUID"],
               ("client", "towers"): ["tower_id"], ("client", "appointments"): ["locator"],
               ("client", "pending_appointments"): ["locator", "tower_id"], ("client", "invalid_appointments"): ["locator", "tower_id"],
               ("client", "appointment_receipts"): ["locator", "tower_id"], ("client", "registration_receipts"): ["tower_id", "subscription_expiry"]}
    for (which, t), pk in pk_want.items():
        sch = tw if which == "tower" else pl
        if sch.get(t, {}).get("pk") == pk:
            rr.ok("%s: pk(%s) = %s" % (which, t, pk), nontrivial=False)
        else:
            rr.fail("%s:pk:%s" % (which, t), "primary key of %s.%s is %s, expected %s" % (which, t, sch.get(t, {}).get("pk"), pk))
    # PRAGMA foreign_keys before create_tables, on every Ok path of DBM::new
    for fn in (TDBM + "new", PDBM + "new"):
        b = ctx.prog.require(fn)
        prag = [bb for bb, st in sql.body_sql(b) if st.upper().startswith("PRAGMA FOREIGN_KEYS") and ("=1" in st.replace(" ", "") or "=ON" in st.upper().replace(" ", ""))]
        ex = [bb for bb in sites_containing(b, "Connection", "::execute")]
        ct = sites_containing(b, "DatabaseManager", "create_tables")
        good = False
        for e in ex:
            a = arg_origin(ctx, b, e, 1)
            if a[0] == "const" and isinstance(a[1], str) and a[1].upper().replace(" ", "").startswith("PRAGMAFOREIGN_KEYS=1"):
                before = ctx.pf.called_before(b)
                if ct and all(any(n.endswith("::execute") for n in before.get(c, set())) for c in ct):
                    # the pragma's `?` must have succeeded to get to create_tables
                    good = all(variant_fact(ctx, b, c, "Continue", "Connection", "execute") for c in ct)
        off = [st for bb, st in sql.body_sql(b) if st.upper().replace(" ", "").startswith("PRAGMAFOREIGN_KEYS") and any(x in st.upper().replace(" ", "") for x in ("=0", "=OFF", "=FALSE", "=NO"))]
        bundled = _sqlite_fk_default_on(fn)
        if off:
            rr.fail("foreign-keys-switched-off:%s" % shortfn(fn), "`%s` executes `%s`: no ON DELETE CASCADE is honoured, owner removal leaves dangling rows" % (shortfn(fn), off[0]), where=b.span)
        elif good:
            rr.ok("%s: PRAGMA foreign_keys=1 succeeded before create_tables" % shortfn(fn), sample={"rule": "SQ1", "constructor": fn, "order": "open -> PRAGMA foreign_keys=1 -> create_tables", "sqlite default (bundled build)": bundled})
        elif bundled:
            rr.ok("%s: foreign keys on by the bundled sqlite's compile-time default" % shortfn(fn), nontrivial=False)
            rr.notes.append("%s has no effective PRAGMA foreign_keys=1; relying on libsqlite3-sys `bundled` (-DSQLITE_DEFAULT_FOREIGN_KEYS=1)" % fn)
        else:
            rr.fail("no-foreign-keys-pragma:%s" % shortfn(fn), "`%s` does not switch foreign keys on (PRAGMA foreign_keys=1) before creating / using the tables and sqlite is not the bundled build with foreign keys on by default: no ON DELETE CASCADE is honoured" % shortfn(fn), where=b.span)
    # the schema is (re)created on every start: `CREATE TABLE IF NOT EXISTS` is idempotent, so a start that skips it because
    # "the file is already there" cannot recover from a crash between creating the file and committing the schema
    for fn in (TDBM + "new", PDBM + "new"):
        b = ctx.prog.require(fn)
        ct = sites_containing(b, "DatabaseManager", "create_tables")
        oks = [bb for bb in b.rpo() for x in b.blocks[bb]["s"] if x["k"] == "assign" and x["d"] == [0] and x["rv"]["k"] == "agg" and x["rv"].get("variant") == "Ok"]
        before = ctx.pf.called_before(b)
        if ct and oks and all(any(n.endswith("DatabaseManager::create_tables") or "create_tables" in n for n in before.get(o, set())) for o in oks):
            rr.ok("%s: create_tables on every successful construction" % shortfn(fn))
        else:
            rr.fail("schema-not-ensured:%s" % shortfn(fn), "`%s` can return Ok without having run create_tables: a database file that exists without its (complete) schema — e.g. after a crash right after the file was created — is never repaired and every later start fails" % shortfn(fn), where=b.span)
    # the connection is sqlite's default one apart from foreign keys: nothing in the three crates lowers a limit, switches a
    # journalling / synchronisation mode or sets another pragma (a value cap refuses the one thing the tower stores that no API
    # limit bounds — the dispute transaction of a tracker; synchronous / journal_mode changes void the crash guarantees of SQ3)
    P = ctx.prog
    CONF = ("set_limit", "set_db_config", "pragma_update", "pragma_update_and_check", "busy_handler", "set_prepared_statement_cache_capacity")
    tuned = []
    for bid, b_ in P.bodies.items():
        if not bid.startswith(("teos::", "teos_common::", "watchtower_plugin::", "<teos", "<T as teos_common", "<watchtower")) or "::tests" in bid or "test_utils" in bid:
            continue
        for bb, t in b_.calls():
            tg_ = call_target(t) or ""
            if "rusqlite" in tg_ and tg_.split("::")[-1] in CONF:
                tuned.append((b_, bb, tg_.split("::")[-1]))
        for bb, st in sql.body_sql(b_):
            u_ = st.upper().replace(" ", "")
            if u_.startswith("PRAGMA") and not u_.startswith("PRAGMAFOREIGN_KEYS"):
                tuned.append((b_, bb, st[:40]))
    if not tuned:
        rr.ok("no sqlite limit, mode or pragma other than foreign_keys is configured anywhere")
    for b_, bb, what in tuned:
        rr.fail("connection-tuned:%s" % what.split("(")[0].replace(" ", "_")[:30], "`%s` configures the sqlite connection with `%s`: the tables hold values no API limit bounds (a tracker's dispute transaction), and the transaction guarantees the checks rely on are those of sqlite's default modes" % (shortfn(b_.id), what), where=b_.line_of(bb))

    rr.require_floor(24, "SQ1 instances")
    return rr


def rule_SQ2(ctx, tier):
    rr = RuleResult("SQ2", "updates rewrite every mutable column; inserts name every column")
    tw = schema(ctx, "teos::dbm::TABLES")
    pl = schema(ctx, "watchtower_plugin::dbm::TABLES")
    if tw is None or pl is None:
        rr.anchor_missing("TABLES constants")
        return rr
    P = ctx.prog

    def stmts(fn, kind):
        b = P.require(fn)
        return [sql.classify(st) for bb, st in sql.body_sql(b) if sql.classify(st)["kind"] == kind]
    checks = [
        (TDBM + "update_appointment", "appointments", {"encrypted_blob", "to_self_delay", "user_signature", "start_block"}, "UUID"),
        (TDBM + "update_user", "users", {"available_slots", "subscription_start", "subscription_expiry"}, "user_id"),
        (TDBM + "update_tracker_status", "trackers", {"height", "confirmed"}, "UUID"),
    ]
    for fn, table, cols, key in checks:
        us = stmts(fn, "update")
        if len(us) == 1 and us[0]["table"] == table and set(us[0]["columns"]) == cols and key.lower() in us[0]["where"].lower():
            rr.ok("%s: UPDATE %s SET %s WHERE %s" % (shortfn(fn), table, sorted(cols), key), sample={"rule": "SQ2", "method": fn, "columns": sorted(cols)})
        else:
            rr.fail("update-coverage:%s" % shortfn(fn), "`%s` executes %s; expected one UPDATE of %s covering exactly %s keyed by %s: a stale column would survive an update" % (shortfn(fn), us, table, sorted(cols), key), where=P.bodies[fn].span)
        # mutable columns = all non-key, non-owner columns of the table
        allc = set(tw[table]["columns"]) - set(tw[table]["pk"]) - {"user_id", "locator", "dispute_tx", "penalty_tx"}
        if cols == allc:
            rr.ok("%s covers all mutable columns of %s" % (shortfn(fn), table))
        else:
            rr.fail("update-vs-schema:%s" % shortfn(fn), "mutable columns of %s are %s, the update rewrites %s" % (table, sorted(allc), sorted(cols)))
    ins = [
        (TDBM + "store_appointment", tw, "appointments"), (TDBM + "store_user", tw, "users"), (TDBM + "store_tracker", tw, "trackers"),
    ]
    for fn, sch, table in ins:
        i = stmts(fn, "insert")
        if len(i) == 1 and i[0]["table"] == table and set(i[0]["columns"]) == set(sch[table]["columns"]):
            rr.ok("%s inserts every column of %s" % (shortfn(fn), table))
        else:
            rr.fail("insert-coverage:%s" % shortfn(fn), "`%s` inserts %s; table %s has %s" % (shortfn(fn), i, table, sch[table]["columns"]), where=P.bodies[fn].span)
    # upserts: on a conflict every inserted non-key column is rewritten (a column left out keeps its old value on disk while
    # the in-memory copy takes the new one)
    import re as _re
    n_up = 0
    for pref, sch in ((TDBM, tw), (PDBM, pl)):
        for bid, b in P.bodies.items():
            if not bid.startswith(pref) or "::tests::" in bid:
                continue
            for bb, st in sql.body_sql(b):
                m = _re.search(r"INSERT INTO (\w+) ?\(([^)]*)\).*ON CONFLICT ?\(([^)]*)\) DO UPDATE SET (.*)$", sql.norm(st), _re.I)
                if not m:
                    continue
                n_up += 1
                table, cols = m.group(1), [c.strip() for c in m.group(2).split(",")]
                keys = {c.strip() for c in m.group(3).split(",")}
                sets = {c.split("=")[0].strip() for c in m.group(4).split(",")}
                need = set(cols) - keys
                if need <= sets:
                    rr.ok("%s: upsert of %s rewrites %s on conflict" % (shortfn(bid), table, sorted(need)))
                else:
                    rr.fail("upsert-coverage:%s" % shortfn(bid), "`%s` upserts %s(%s) but on a conflict only rewrites %s: %s keep their old values on disk" % (shortfn(bid), table, ", ".join(cols), sorted(sets), sorted(need - sets)), where=b.line_of(bb))
    if n_up < 1:
        rr.fail("floor:upserts", "no INSERT .. ON CONFLICT .. DO UPDATE statement found (1 confirmed: store_tower_record)")
    # the refund UPDATE inside batch_remove_appointments writes available_slots keyed by user
    us = stmts(TDBM + "batch_remove_appointments", "update")
    if len(us) == 1 and us[0]["table"] == "users" and us[0]["columns"] == ["available_slots"] and "user_id" in us[0]["where"]:
        rr.ok("refund UPDATE users SET available_slots WHERE user_id")
    else:
        rr.fail("refund-update", "batch_remove_appointments refund statement is %s" % us)
    # parameter binding order of the positional placeholders: params![..] origin names match the column list
    binds = [
        (TDBM + "update_user", ["available_slots", "subscription_start", "subscription_expiry", "to_vec"]),
        (TDBM + "store_user", ["to_vec", "available_slots", "subscription_start", "subscription_expiry"]),
        (TDBM + "update_appointment", ["encrypted_blob", "to_self_delay", "user_signature", "start_block", "to_vec"]),
        (TDBM + "store_appointment", ["to_vec", "locator", "encrypted_blob", "to_self_delay", "user_signature", "start_block", "user_id"]),
    ]
    for fn, order in binds:
        b = P.require(fn)
        got = _param_order(ctx, b)
        if got is None:
            rr.fail("bind-order-undecided:%s" % shortfn(fn), "cannot recover the params![] array of `%s`" % shortfn(fn), where=b.span)
        elif len(got) == len(order) and all(o in g for o, g in zip(order, got)):
            rr.ok("%s binds %s in column order" % (shortfn(fn), order), sample={"rule": "SQ2", "method": fn, "bound": [g[-60:] for g in got]})
        else:
            rr.fail("bind-order:%s" % shortfn(fn), "`%s` binds %s to placeholders ?1.. but the statement's columns are %s" % (shortfn(fn), [g[-40:] for g in got], order), where=b.span)
    rr.require_floor(14, "SQ2 instances")
    return rr


def _param_order(ctx, b):
    """origins of the elements of the `params![a, b, c]` array literal (an array aggregate of &dyn ToSql)"""
    best = None
    for bb in b.rpo():
        for s in b.blocks[bb]["s"]:
            if s["k"] == "assign" and s["rv"]["k"] == "agg" and s["rv"]["agg"] == "array" and len(s["rv"]["ops"]) >= 2:
                ty = b.locals[s["d"][0]]["ty"]
                if "ToSql" in ty:
                    best = [og.show(ctx.og.operand(b, o)) for o in s["rv"]["ops"]]
    return best


def rule_SQ3(ctx, tier):
    rr = RuleResult("SQ3", "multi-statement writes are one sqlite transaction that is committed")
    P = ctx.prog
    from .rulekit import has_call
    n = 0
    for b in P.bodies.values():
        if b.kind not in ("fn", "method"):
            continue
        if not (b.id.startswith((TDBM, PDBM)) or "DatabaseManager>::create_tables" in b.id):
            continue
        ex = sites_containing(b, "::execute")
        txs = sites_containing(b, "Connection", "transaction")
        in_loop = [e for e in ex if e in b.reachable(b.succ(e)[0])] if ex else []
        helper_calls = [bb for bb, t in b.calls() if (call_target(t) or "").startswith((TDBM, PDBM)) and any("Transaction" in b.locals[a_["m"][0] if "m" in a_ else a_["c"][0]]["ty"] for a_ in t["args"] if ("m" in a_ or "c" in a_))]
        multi = len(ex) + len(helper_calls) >= 2 or bool(in_loop)
        takes_tx = any("rusqlite::Transaction" in l["ty"] for l in b.locals[1:b.argc + 1])
        if takes_tx:
            continue   # a helper that runs on its caller's transaction
        if not multi:
            continue
        n += 1
        commits = sites_containing(b, "Transaction", "commit")
        if not txs or not commits:
            rr.fail("no-transaction:%s" % shortfn(b.id), "`%s` performs several write statements without a transaction / commit: a crash between them leaves a half-applied change" % shortfn(b.id), where=b.span)
            continue
        bad = [e for e in ex if not has_call(arg_origin(ctx, b, e, 0), "Connection", "transaction")]
        if bad:
            rr.fail("write-outside-transaction:%s" % shortfn(b.id), "`%s` executes a statement on `%s`, not on the transaction it opened" % (shortfn(b.id), og.show(arg_origin(ctx, b, bad[0], 0))[:80]), where=b.line_of(bad[0]))
            continue
        if _only_error_returns(ctx, b, commits):
            rr.ok("%s: statements on one transaction, committed" % shortfn(b.id), sample={"rule": "SQ3", "method": b.id, "execute sites": len(ex), "transaction": True, "commit on every non-error path": True})
        else:
            rr.fail("uncommitted:%s" % shortfn(b.id), "`%s` can return normally on a path that does not pass its commit: either the transaction is dropped uncommitted (its writes are rolled back), or a shortcut returns before the transaction and skips part of what the method is handed to write" % shortfn(b.id), where=b.span)
    if n < 9:
        rr.fail("floor:multi-statement-methods", "found %d multi-statement DBM methods, 9 confirmed by reading" % n)
    rr.require_floor(7, "SQ3 instances")
    return rr


def _only_error_returns(ctx, b, commits):
    """every path entry -> return that avoids all commit blocks passes a `from_residual` / Err construction"""
    commits = set(commits)
    errb = set()
    for bb in b.rpo():
        t = b.term(bb)
        if t["k"] == "call" and any("from_residual" in n for n in call_names(t)):
            errb.add(bb)
        for s in b.blocks[bb]["s"]:
            if s["k"] == "assign" and s["rv"]["k"] == "agg" and s["rv"].get("variant") == "Err":
                errb.add(bb)
    seen, st = set(), [0]
    while st:
        x = st.pop()
        if x in seen or x in commits or x in errb:
            continue
        seen.add(x)
        if b.term(x)["k"] == "return":
            return False
        st.extend(b.succ(x))
    return True


# the row sets the pipelines rely on: method -> (tables, where columns, anti-join?) with the reason
QUERY_SHAPES = {
    "batch_check_locators_exist": (["appointments"], ["locator"], False, "per-block intersection ranges over ALL stored appointments (triggered ones included: a dispute re-confirmed after a reorg must be answered again)"),
    "load_uuids": (["appointments"], ["locator"], False, "must range over the same rows as batch_check_locators_exist (sibling queries of get_breaches / handle_breaches)"),
    "load_appointment": (["appointments"], ["uuid"], False, "the appointment of a uuid, whatever its trigger state"),
    "appointment_exists": (["appointments"], ["uuid"], False, "insert-or-update decision in Watcher::store_appointment"),
    "get_appointment_length": (["appointments"], ["uuid"], False, "slots already charged for this uuid"),
    "get_appointment_user_and_length": (["appointments"], ["uuid"], False, "refund of a completed tracker"),
    "tracker_exists": (["trackers"], ["uuid"], False, "already-triggered test"),
    "load_tracker": (["appointments", "trackers"], ["uuid"], False, "tracker with its owner"),
    "load_penalties_summaries": (["appointments", "trackers"], [], False, "every tracker is confirmation-checked on every block"),
    "load_trackers_with_confirmation_status": (["trackers"], ["confirmed"], False, "reorg / rebroadcast selection by status"),
    "load_user_locators": (["appointments"], ["user_id"], False, "a user's own locators"),
    "load_all_users": (["users"], [], False, "bootstrap"),
}


def rule_SQ4(ctx, tier):
    rr = RuleResult("SQ4", "the SELECTs the pipelines rely on range over the documented row sets (tables and filter columns); sibling queries agree")
    P = ctx.prog
    shapes = {}
    for name, (tables, where, anti, why) in QUERY_SHAPES.items():
        b = P.bodies.get(TDBM + name)
        if b is None:
            rr.anchor_missing(TDBM + name)
            continue
        sel = []
        for fid in P.family(b.id):
            sel += [st for bb, st in sql.body_sql(P.bodies[fid]) if sql.classify(st)["kind"] == "select"]
        if len(sel) != 1:
            rr.fail("query-count:%s=%d" % (name, len(sel)), "DBM::%s contains %d SELECT statements (1 expected)" % (name, len(sel)), where=b.span)
            continue
        sh = sql.select_shape(sel[0])
        shapes[name] = sh
        # the row set is not truncated: no LIMIT / OFFSET anywhere in the text the method assembles (also in fragments appended at
        # run time) — several users can hold an appointment for one locator, so "as many rows as keys asked for" is not enough
        import re as _re
        cut = []
        for fid in P.family(b.id):
            fb_ = P.bodies[fid]
            for bb_ in fb_.rpo():
                for x_ in fb_.blocks[bb_]["s"] + [fb_.term(bb_)]:
                    for _, v_ in _consts_in(x_):
                        if isinstance(v_, str) and _re.search(r"\b(LIMIT|OFFSET)\b", v_, _re.I) and not _re.search(r"[a-z]{3,} (limit|offset) [a-z]{3,}", v_):
                            cut.append(v_.strip()[:30])
        if cut:
            rr.fail("query-truncated:%s" % name, "DBM::%s assembles a statement with `%s`: the pipeline relies on every matching row (%s)" % (name, cut[0], why), where=b.span)
            continue
        if sh["tables"] == tables and sh["where"] == where and sh["anti_join"] == anti:
            rr.ok("%s: FROM %s WHERE %s" % (name, tables, where), sample={"rule": "SQ4", "method": name, "shape": sh, "why": why})
        else:
            rr.fail("query-scope:%s" % name, "DBM::%s now selects FROM %s filtered on %s%s; the pipeline relies on FROM %s filtered on %s — %s" % (
                name, sh["tables"], sh["where"], " with an IS NULL anti-join" if sh["anti_join"] else "", tables, where, why), where=b.span)
    a, c = shapes.get("batch_check_locators_exist"), shapes.get("load_uuids")
    if a and c:
        if a == c:
            rr.ok("get_breaches and handle_breaches query the same rows")
        else:
            rr.fail("breach-queries-disagree", "batch_check_locators_exist (%s) and load_uuids (%s) do not range over the same rows: a locator reported as breached can yield no appointment to respond to" % (a, c))
    rr.require_floor(12, "SQ4 instances")
    return rr


# which DBM method may write which table (confirmed by reading; one owner set per (table, statement kind))
WRITE_OWNERS = {
    "tower": {
        ("users", "insert"): {"store_user"}, ("users", "update"): {"update_user", "batch_remove_appointments"}, ("users", "delete"): {"batch_remove_users"},
        ("appointments", "insert"): {"store_appointment"}, ("appointments", "update"): {"update_appointment"}, ("appointments", "delete"): {"remove_appointment", "batch_remove_appointments"},
        ("trackers", "insert"): {"store_tracker"}, ("trackers", "update"): {"update_tracker_status"},
        ("last_known_block", "insert"): {"store_last_known_block"}, ("keys", "insert"): {"store_tower_key"},
    },
    "client": {
        ("towers", "insert"): {"store_tower_record"}, ("towers", "update"): {"store_appointment_receipt"}, ("towers", "delete"): {"remove_tower_record"},
        ("appointments", "insert"): {"store_appointment"}, ("appointments", "delete"): {"delete_pending_appointment"},
        ("pending_appointments", "insert"): {"store_pending_appointment"}, ("pending_appointments", "delete"): {"delete_pending_appointment"},
        ("invalid_appointments", "insert"): {"store_invalid_appointment"}, ("invalid_appointments", "delete"): {"store_appointment_receipt"},
        ("registration_receipts", "insert"): {"store_tower_record"},
        ("appointment_receipts", "insert"): {"store_appointment_receipt", "store_misbehaving_proof"},
        ("misbehaving_proofs", "insert"): {"store_misbehaving_proof"}, ("keys", "insert"): {"store_client_key"},
    },
}


def _orphans_only(stmt):
    """DELETE FROM appointments restricted to bodies that neither link table refers to"""
    import re
    u = sql.norm(stmt).upper()
    return all(re.search(r"LOCATOR\s+NOT\s+IN\s*\(\s*SELECT\s+(?:DISTINCT\s+)?LOCATOR\s+FROM\s+%s\s*\)" % t.upper(), u) or
               re.search(r"NOT\s+EXISTS\s*\(\s*SELECT\s+.*?\s+FROM\s+%s\s+.*?LOCATOR" % t.upper(), u) for t in ("pending_appointments", "invalid_appointments"))


def rule_SQ5(ctx, tier, which=None):
    rr = RuleResult("SQ5" + ({"tower": "t", "client": "c"}.get(which, "")), "table write ownership: each table is written only by the DBM methods that own it; shared rows are deleted only through the reference-counting path")
    P = ctx.prog
    for side, prefix in (("tower", TDBM), ("client", PDBM)):
        if which and which != side:
            continue
        seen = {}
        for bid, b in P.bodies.items():
            if not bid.startswith(prefix):
                continue
            meth = bid[len(prefix):].split("::")[0]
            for bb, st in sql.body_sql(b):
                c = sql.classify(st)
                if c["kind"] in ("insert", "update", "delete") and c.get("table"):
                    seen.setdefault((c["table"], c["kind"]), set()).add(meth)
        owners = WRITE_OWNERS[side]
        for key, meths in sorted(seen.items()):
            al = owners.get(key)
            extra = meths - (al or set())
            if side == "client" and key == ("appointments", "delete") and extra:
                # a sweep of bodies that NO link refers to any more is not a competing writer of shared rows
                for meth in sorted(extra):
                    mb = P.bodies.get(prefix + meth)
                    dels = [st for bb, st in sql.body_sql(mb) if sql.classify(st)["kind"] == "delete" and sql.classify(st).get("table") == "appointments"] if mb else []
                    if dels and all(_orphans_only(st) for st in dels):
                        extra = extra - {meth}
            if al is None:
                rr.fail("%s:unowned-write:%s.%s:%s" % (side, key[0], key[1], ",".join(sorted(meths))), "%s DBM: `%s` now performs %s on table `%s`, which no method was confirmed to write this way" % (side, sorted(meths), key[1].upper(), key[0]))
            elif extra:
                rr.fail("%s:foreign-table-writer:%s.%s:%s" % (side, key[0], key[1], ",".join(sorted(extra))), "%s DBM: `%s` performs %s on table `%s`; only %s may — rows of `%s` are shared / mirrored elsewhere and this write bypasses that bookkeeping" % (side, sorted(extra), key[1].upper(), key[0], sorted(al), key[0]))
            else:
                rr.ok("%s: %s %s by %s" % (side, key[1], key[0], sorted(meths)), sample={"rule": "SQ5", "side": side, "table": key[0], "statement": key[1], "writers": sorted(meths)})
        for key in owners:
            if key not in seen:
                rr.fail("%s:missing-writer:%s.%s" % (side, key[0], key[1]), "%s DBM: nobody performs %s on `%s` any more" % (side, key[1].upper(), key[0]))
    if which in (None, "client"):
        # reference counting of shared appointment bodies counts BOTH kinds of link
        d = P.require(PDBM + "delete_pending_appointment")
        LINKS = ("pending_appointments", "invalid_appointments")

        def _strings(term):
            return {str(x[1]) for x in og.walk(term) if isinstance(x, tuple) and x and x[0] == "const" and isinstance(x[1], str)}

        def _is_count(term):
            """does the term come out of a COUNT query -- its own text, or that of a DBM helper it was obtained through?"""
            if any("COUNT" in x.upper() for x in _strings(term)):
                return True
            # the statement text is a format template (a byte-string constant, which origin terms do not carry): the
            # templates of this very function are looked at instead
            if any(isinstance(x, tuple) and x and x[0] == "call" and x[1] == "std::fmt::format" for x in og.walk(term)) \
                    and any("COUNT" in str(y).upper() and "\ufffd" in str(y) for y in _all_strings(d)):
                return True
            for x in og.walk(term):
                if isinstance(x, tuple) and x and x[0] in ("call", "ret") and isinstance(x[1], str) and x[1].startswith(PDBM):
                    hb = P.bodies.get(x[1])
                    if hb is not None and any("COUNT" in str(y).upper() for y in _all_strings(hb)):
                        return True
            return False

        def _all_strings(b):
            out = []

            def walk(o):
                if isinstance(o, dict):
                    for k_ in ("str", "bytes"):
                        if k_ in o:
                            out.append(o[k_])
                    for v in o.values():
                        walk(v)
                elif isinstance(o, list):
                    for v in o:
                        walk(v)
            walk(b.blocks)
            return out

        def count_tables(term):
            """which of the two link tables a counted value ranges over: named in the statement text, or handed as the
            table name to a counting helper"""
            if not _is_count(term):
                return set()
            return {t for t in LINKS for x in _strings(term) if t in x}
        counted = {sql.select_shape(st)["tables"][0] for bb, st in sql.body_sql(d) if sql.classify(st)["kind"] == "select" and "COUNT" in st.upper() and sql.select_shape(st)["tables"]}
        for bb, t in d.calls():
            tgt = call_target(t) or ""
            hb = P.bodies.get(tgt)
            if tgt.startswith(PDBM) and hb is not None and any("COUNT" in str(y).upper() for y in _all_strings(hb)):
                for i in range(len(t.get("args", []))):
                    c = const_of(arg_origin(ctx, d, bb, i))
                    if c and c[0] in LINKS:
                        counted.add(c[0])
        counted = sorted(counted)
        stmts = [(bb, st, sql.classify(st)) for bb, st in sql.body_sql(d)]
        bodydels = [(bb, st) for bb, st, c in stmts if c["kind"] == "delete" and c.get("table") == "appointments"]
        own_first = [i for i, (bb, st, c) in enumerate(stmts) if c["kind"] == "delete" and c.get("table") == "pending_appointments" and "tower_id" in st.lower()]
        after_the_fact = bool(bodydels) and all(_orphans_only(st) for bb, st in bodydels) and bool(own_first) and \
            all(min(own_first) < i for i, (bb, st, c) in enumerate(stmts) if c["kind"] == "delete" and c.get("table") == "appointments")
        if after_the_fact:
            rr.ok("delete_pending_appointment removes its own link first and the body only when no link refers to it any more", sample={"rule": "SQ5", "body delete": sql.norm(bodydels[0][1])[:160]})
        else:
            # counting the references BEFORE deleting cannot tell whose the last one is: when it belongs to another tower (this
            # tower was abandoned and registered again while a retrier still held the locator) the body goes, and the other
            # tower's pending row with it through the cascade
            rr.fail("client:body-deleted-on-foreign-reference", "delete_pending_appointment decides from a reference COUNT taken before it deletes anything whether to delete the shared body: `count == 1` does not say that the one reference is this tower's. After `abandontower` + `registertower` a retrier still working on the old pending set delivers an appointment that is pending for another tower only, and the body — with that tower's pending row, by cascade — is deleted", where=d.span)
        if after_the_fact:
            pass
        elif counted == ["invalid_appointments", "pending_appointments"]:
            rr.ok("shared appointment body deleted only when pending + invalid references == 1", sample={"rule": "SQ5", "reference count over": counted})
        else:
            rr.fail("client:refcount-tables:%s" % ",".join(counted), "delete_pending_appointment counts references over %s; both pending_appointments and invalid_appointments hold links to the shared body" % counted, where=d.span)
        # abandoning a tower takes its links with it (cascade); the bodies only it referred to go too: `appointments` is
        # the PARENT of the link tables, nothing cascades into it (C18: abandoning deletes all of that tower's records)
        rt_ = P.bodies.get(PDBM + "remove_tower_record")
        if rt_ is None:
            rr.anchor_missing(PDBM + "remove_tower_record")
        else:
            sweeps = [st for bb, st in sql.body_sql(rt_) if sql.classify(st)["kind"] == "delete" and sql.classify(st).get("table") == "appointments" and _orphans_only(st)]
            if sweeps:
                rr.ok("remove_tower_record sweeps the appointment bodies no link refers to any more")
            else:
                rr.fail("client:orphan-bodies-after-abandon", "`remove_tower_record` deletes the tower (its links cascade) but not the appointment bodies that only this tower referred to: `appointments` is the parent of the link tables, nothing deletes a body whose last link went away through the cascade — the encrypted blobs of an abandoned tower stay in the database for ever", where=rt_.span)
        # ... and the body is deleted only on a path where that count was found to be (at most) one
        from .rulekit import facts_at, rel_of_term
        for bb, st in sql.body_sql(d):
            c = sql.classify(st)
            if c["kind"] != "delete" or c.get("table") != "appointments":
                continue
            if after_the_fact:
                rr.ok("DELETE FROM appointments restricted to unreferenced bodies")
                continue
            ok = False
            for f in facts_at(ctx, d, bb):
                if f[0] != "truth":
                    continue
                for op, l, r in rel_of_term(f[1], f[2]):
                    k = og.strip(r)
                    if not (isinstance(k, tuple) and k and k[0] == "const"):
                        continue
                    both = count_tables(l) == set(LINKS)
                    # ... and the two counts are added
                    summed = False
                    for x in og.walk(l):
                        if isinstance(x, tuple) and len(x) == 4 and x[0] == "bin" and x[1] in ("Add", "AddWithOverflow", "AddUnchecked"):
                            cs = [count_tables(side) for side in (x[2], x[3])]
                            if all(cs) and cs[0] != cs[1]:
                                summed = True
                    both = both and summed
                    kv = str(k[1])
                    if both and ((op in ("Eq", "Le") and kv == "1") or (op == "Lt" and kv == "2")):
                        ok = True
            if ok:
                rr.ok("DELETE FROM appointments only under references == 1", sample={"rule": "SQ5", "site": d.line_of(bb), "guard": "pending + invalid == 1"})
            else:
                rr.fail("client:body-deleted-while-referenced", "delete_pending_appointment deletes the shared appointment body on a path where the number of references (pending + invalid rows, all towers) was not found to be one: the cascade removes the other towers' pending rows with it", where=d.line_of(bb))
    rr.require_floor({None: 24, "tower": 10, "client": 14}[which], "SQ5 instances")
    return rr


def rule_SQ5_tower(ctx, tier):
    return rule_SQ5(ctx, tier, "tower")


def rule_SQ5_client(ctx, tier):
    return rule_SQ5(ctx, tier, "client")


# ------------------------------------------------------------------------------------------------------------------
# SQ6: a statement read with query_row (first row wins, the rest is silently dropped) identifies one row
def _single_row(stmt, sch):
    """-> (True, why) if the SELECT can return at most one row given the primary keys in `sch`, else (False, table, missing)"""
    import re
    s = sql.norm(stmt)
    # scalar sub-selects constrain a column like a parameter does; blank them out (innermost first)
    u = s.upper()
    sel = re.match(r"SELECT (.*?) FROM ", s, re.I)
    if sel and re.match(r"\s*(COUNT|MAX|MIN|SUM|AVG|TOTAL)\s*\(", sel.group(1), re.I) and "GROUP BY" not in u:
        return True, "aggregate without GROUP BY"
    prev = None
    while prev != s:
        prev = s
        s = re.sub(r"\(\s*\?\d*\s*\)", "?", s)
        s = re.sub(r"\b(?:MAX|MIN|COUNT|SUM|LENGTH|AVG|TOTAL)\s*\([^()]*\)", "agg", s, flags=re.I)
        s = re.sub(r"\(\s*SELECT [^()]*\)", "?", s, flags=re.I)
    u = s.upper()
    if re.search(r"\bLIMIT 1\b", u):
        return True, "LIMIT 1"
    m = re.search(r" FROM (.*?)(?: WHERE (.*))?$", s, re.I)
    if not m:
        return True, "no FROM"
    frm, where = m.group(1), m.group(2) or ""
    where = re.split(r"\b(?:ORDER BY|GROUP BY|LIMIT)\b", where, flags=re.I)[0]
    alias = {}
    conds = [where]
    # FROM a [AS x] {, b [AS y]} {[LEFT|INNER] JOIN c [AS z] (ON cond | USING (cols))}
    parts = re.split(r"\b(?:LEFT OUTER|LEFT|INNER|CROSS)?\s*JOIN\b", frm, flags=re.I)
    tabs = []
    for i, p in enumerate(parts):
        p = p.strip()
        on = ""
        mm = re.search(r"\bON\b(.*)$", p, re.I)
        using = re.search(r"\bUSING\s*\(([^)]*)\)", p, re.I)
        if mm:
            on, p = mm.group(1), p[:mm.start()]
        if using:
            p = p[:using.start()]
        for item in p.split(","):
            w = item.split()
            if not w:
                continue
            t = w[0]
            a = w[2] if len(w) >= 3 and w[1].upper() == "AS" else (w[1] if len(w) == 2 else t)
            alias[a] = t
            tabs.append(a)
        if on:
            conds.append(on)
        if using and len(tabs) >= 2:
            for c in using.group(1).split(","):
                conds.append("%s.%s = %s.%s" % (tabs[-2], c.strip(), tabs[-1], c.strip()))
    # equalities -> union-find over (alias, col); a class is fixed when it is equated to a parameter / literal
    parent, fixed = {}, set()

    def find(x):
        parent.setdefault(x, x)
        while parent[x] != x:
            parent[x] = parent[parent[x]]
            x = parent[x]
        return x

    def col(tok):
        tok = tok.strip().strip("()")
        mm = re.match(r"^(\w+)\.(\w+)$", tok)
        if mm and mm.group(1) in alias:
            return (mm.group(1), mm.group(2).lower())
        if re.match(r"^[A-Za-z_]\w*$", tok):
            owners = [a for a in tabs if tok.lower() in [c.lower() for c in (sch.get(alias[a]) or {}).get("columns", [])]]
            if len(owners) == 1:
                return (owners[0], tok.lower())
        return None
    for cond in conds:
        if re.search(r"\bOR\b", cond, re.I):
            continue  # a disjunction fixes nothing
        for eq in re.split(r"\bAND\b", cond, flags=re.I):
            mm = re.match(r"^\s*(.+?)\s*=\s*(.+?)\s*$", eq)
            if not mm or re.search(r"[<>!]", eq):
                continue
            l, r = col(mm.group(1)), col(mm.group(2))
            if l and r:
                parent[find(l)] = find(r)
            elif l or r:
                other = (mm.group(2) if l else mm.group(1)).strip().strip("()")
                if re.match(r"^(\?\d*|\d+|'[^']*'|:\w+)$", other):
                    fixed.add(find(l or r))
    fixed = {find(x) for x in fixed}
    for a in tabs:
        pk = [c.lower() for c in (sch.get(alias[a]) or {}).get("pk", [])]
        if not pk:
            return False, alias[a], ["<no primary key known>"]
        miss = [c for c in pk if find((a, c)) not in fixed]
        if miss:
            return False, alias[a], miss
    return True, "every table's primary key is fixed by the WHERE / join equalities"


def rule_SQ6(ctx, tier):
    rr = RuleResult("SQ6", "single-row reads: every SELECT consumed with query_row identifies at most one row (full primary key of every table fixed, or an aggregate)")
    P = ctx.prog
    from .rulekit import arg_origin
    n = 0
    for side, prefix, path in (("tower", TDBM, "teos::dbm::TABLES"), ("client", PDBM, "watchtower_plugin::dbm::TABLES")):
        sch = schema(ctx, path)
        if not sch:
            rr.anchor_missing(path)
            continue
        sch = dict(sch)
        sch.setdefault("sqlite_sequence", {"columns": ["name", "seq"], "pk": ["name"]})
        for bid, b in sorted(P.bodies.items()):
            if not bid.startswith(prefix) or "::tests" in bid:
                continue
            for bb, t in b.calls():
                if (call_target(t) or "").split("::")[-1] != "query_row":
                    continue
                a0 = arg_origin(ctx, b, bb, 0)
                stmts = sorted({sql.norm(str(x[1])) for x in og.walk(a0) if isinstance(x, tuple) and x and x[0] == "const" and isinstance(x[1], str) and x[1].lstrip().upper().startswith("SELECT")})
                if not stmts:
                    # dynamic SQL: nothing to judge here (built strings are owned by SQ4's query-scope clauses)
                    continue
                for st in stmts:
                    n += 1
                    r = _single_row(st, sch)
                    if r[0]:
                        rr.ok("%s: %s" % (shortfn(bid), r[1]), sample={"rule": "SQ6", "function": shortfn(bid), "statement": st[:120], "why unique": r[1]})
                    else:
                        rr.fail("query_row-not-unique:%s:%s" % (shortfn(bid), r[1]), "%s DBM: `%s` reads `%s` with query_row, but the statement does not fix %s of table `%s`'s primary key: with several matching rows the first one wins silently (rows of other towers / users sharing the fixed part)" % (side, shortfn(bid), st[:110], r[2], r[1]), where=b.line_of(bb))
    # "latest row per group" joins: a derived table `(SELECT g, MAX(x) .. GROUP BY g) AS d` only selects the latest row of each group if
    # it is tied to the outer tables on g as well as on the aggregate; tied on the aggregate alone it pairs every group with every
    # row that happens to carry some group's maximum (two towers registered in the same block share their expiries)
    import re as _re
    for side, prefix in (("tower", TDBM), ("client", PDBM)):
        for bid, b in sorted(P.bodies.items()):
            if not bid.startswith(prefix) or "::tests" in bid:
                continue
            for bb, st in sql.body_sql(b):
                stn = sql.norm(st)
                for md in _re.finditer(r"\(\s*SELECT (.*?) GROUP BY (\w+)\s*\)\s*(?:AS\s+)?(\w+)", stn, _re.I):
                    g, alias = md.group(2), md.group(3)
                    rest = stn[:md.start()] + " " + stn[md.end():]
                    tied = _re.search(r"\b\w+\.%s\s*=\s*%s\.%s\b|\b%s\.%s\s*=\s*\w+\.%s\b" % (g, alias, g, alias, g, g), rest, _re.I)
                    if tied:
                        rr.ok("%s: grouped sub-select `%s` tied on its group column %s" % (shortfn(bid), alias, g))
                    else:
                        rr.fail("grouped-subquery-untied:%s:%s" % (shortfn(bid), alias), "%s DBM: in `%s` the grouped sub-select `%s` (one row per %s) is not joined on `%s`: rows of one %s are paired with the aggregate of another, and the loader keeps whichever comes last" % (side, shortfn(bid), alias, g, g, g), where=b.line_of(bb))
    rr.require_floor(12, "query_row statements")  # 17 on the reference tree; merging two reads into one correct join is fine
    return rr


# ------------------------------------------------------------------------------------------------------------------
# SQ7: what a row reader takes from position i is the column the SELECT puts at position i
_WS = ("teos::", "teos_common::", "watchtower_plugin::", "watchtower_client::", "teosd::")
# column name -> name of the constructor parameter / field it legitimately lands in when the two differ (read and confirmed)
_ROLE_ALIAS = {
    ("penalty_tx", "penalty_txid"): "PenaltySummary keeps the id of the stored penalty (compute_txid of the column)",
    ("tower_signature", "signature"): "AppointmentReceipt::with_signature names the tower's signature `signature`",
}


def _select_cols(st):
    import re
    m = re.match(r"SELECT (.*?) FROM ", sql.norm(st), re.I)
    if not m:
        return None
    cols, depth, cur = [], 0, ""
    for ch in m.group(1):
        depth += ch == "("
        depth -= ch == ")"
        if ch == "," and depth == 0:
            cols.append(cur.strip())
            cur = ""
        else:
            cur += ch
    cols.append(cur.strip())
    out = []
    for c in cols:
        if "(" in c or "*" in c:
            out.append(None)            # an expression: position only
        else:
            w = c.split()
            out.append((w[-1] if len(w) >= 3 and w[-2].upper() == "AS" else w[0]).split(".")[-1])
    return out


def _reader_roles(P, term, role, out, depth=0):
    """(index, role, statement-or-None) for every Row::get(_, const i) inside `term`; role = the field / constructor-parameter name the
    value lands in (conversions pass the role through), None when it lands in nothing that has a name"""
    if depth > 60 or not isinstance(term, tuple) or not term:
        return
    k = term[0]
    if k == "call" and term[1].endswith("Row::<'stmt>::get") and len(term[2]) == 2:
        ix = og.strip(term[2][1])
        if isinstance(ix, tuple) and ix and ix[0] == "const" and (isinstance(ix[1], str) or (isinstance(ix[1], int) and not isinstance(ix[1], bool))):
            sts = [str(x[1]) for x in og.walk(term[2][0]) if isinstance(x, tuple) and x and x[0] == "const" and isinstance(x[1], str) and x[1].lstrip().upper().startswith("SELECT")]
            out.append((ix[1], role, sql.norm(sts[0]) if len(set(sts)) == 1 else None))
        return
    if k in ("call", "ret"):
        fn = term[1]
        args = term[2] if k == "call" else (term[4] if len(term) > 4 and isinstance(term[4], tuple) else ())
        cb = P.bodies.get(fn) if fn.startswith(_WS) or fn.startswith("<teos") or fn.startswith("<watchtower") else None
        for i, a in enumerate(args):
            r = role
            if cb is not None and len(args) >= 2 and i + 1 < len(cb.locals):
                n = cb.locals[i + 1].get("name")
                if n and n != "self":
                    r = n
            _reader_roles(P, a, r, out, depth + 1)
        return
    if k == "agg":
        for fname, sub in term[3]:
            _reader_roles(P, sub, role if str(fname).isdigit() else fname, out, depth + 1)
        return
    if k == "phi":
        for a in term[1]:
            _reader_roles(P, a, role, out, depth + 1)
        return
    for x in term[1:]:
        if isinstance(x, tuple):
            _reader_roles(P, x, role, out, depth + 1)


def rule_SQ7(ctx, tier):
    rr = RuleResult("SQ7", "row readers agree with their SELECT: position i is inside the column list, and a value that lands in a named field / constructor parameter comes from the column of that name")
    P = ctx.prog
    from .rulekit import arg_origin
    nfn = 0
    for side, prefix in (("tower", TDBM), ("client", PDBM)):
        for bid, b in sorted(P.bodies.items()):
            if not bid.startswith(prefix) or "::tests" in bid or b.kind not in ("fn", "method"):
                continue
            fam = [P.bodies[c] for c in P.family(bid)]
            # statement consumed by each closure (query_row / query_map / query_and_then hand the row to it)
            by_closure = {}
            sels = []
            for fb in fam:
                for bb, st in sql.body_sql(fb):
                    if st.upper().startswith("SELECT"):
                        sels.append(sql.norm(st))
                for bb, t in fb.calls():
                    if (call_target(t) or "").split("::")[-1] in ("query_row", "query_map", "query_and_then"):
                        recv = arg_origin(ctx, fb, bb, 0)
                        sts = {sql.norm(str(x[1])) for x in og.walk(recv) if isinstance(x, tuple) and x and x[0] == "const" and isinstance(x[1], str) and x[1].lstrip().upper().startswith("SELECT")}
                        for i in range(1, len(t["args"])):
                            a = arg_origin(ctx, fb, bb, i)
                            if isinstance(a, tuple) and a and a[0] == "closure" and len(sts) == 1:
                                by_closure[a[1]] = next(iter(sts))
            if not sels:
                continue
            reads = []
            for fb in fam:
                found = []
                _reader_roles(P, ctx.og.local(fb, 0), None, found)
                for bb, t in fb.calls():
                    if (call_target(t) or "").split("::")[-1] in ("insert", "push", "extend", "push_back"):
                        for i in range(1, len(t["args"])):
                            _reader_roles(P, arg_origin(ctx, fb, bb, i), None, found)
                for ix, role, st in found:
                    st = st or by_closure.get(fb.id) or (sels[0] if len(set(sels)) == 1 else None)
                    reads.append((ix, role, st, fb))
            if not reads:
                continue
            nfn += 1
            seen = set()
            for ix, role, st, fb in reads:
                if st is None or (ix, role, st) in seen:
                    continue
                seen.add((ix, role, st))
                cols = _select_cols(st)
                if cols is None:
                    continue
                if isinstance(ix, str):
                    # read by name: the name is one of the selected columns, and (when the landing place has a name) the same one
                    names_ = [c_.lower() for c_ in cols if c_]
                    if ix.lower() not in names_:
                        rr.fail("row-column-unknown:%s:%s" % (shortfn(bid), ix), "%s DBM: `%s` reads column `%s` of a row of `%s`, which does not select it: rusqlite answers InvalidColumnName and the unwrap panics" % (side, shortfn(bid), ix, st[:80]), where=fb.span)
                    elif role is None or role.startswith("arg") or role.lower() == ix.lower() or (ix.lower(), role.lower()) in _ROLE_ALIAS:
                        rr.ok("%s: column %s read by name" % (shortfn(bid), ix))
                    else:
                        rr.fail("column-role-mismatch:%s:%s->%s" % (shortfn(bid), ix, role), "%s DBM: `%s` puts column `%s` of `%s` into `%s`" % (side, shortfn(bid), ix, st[:70], role), where=fb.span)
                    continue
                if ix >= len(cols):
                    rr.fail("row-index-out-of-range:%s:%d" % (shortfn(bid), ix), "%s DBM: `%s` reads position %d of a row of `%s`, which selects %d column(s): rusqlite answers InvalidColumnIndex and the unwrap panics" % (side, shortfn(bid), ix, st[:80], len(cols)), where=fb.span)
                    continue
                c = cols[ix]
                if c is None or role is None or role.startswith("arg"):
                    rr.ok("%s[%d] in range" % (shortfn(bid), ix), nontrivial=False)
                    continue
                if c.lower() == role.lower() or (c.lower(), role.lower()) in _ROLE_ALIAS:
                    rr.ok("%s: column %s -> %s" % (shortfn(bid), c, role), sample={"rule": "SQ7", "function": shortfn(bid), "position": ix, "column": c, "lands in": role})
                else:
                    rr.fail("column-role-mismatch:%s:%s->%s" % (shortfn(bid), c, role), "%s DBM: `%s` puts position %d of `%s` — column `%s` — into `%s`: what is loaded is not what was stored under that name (two columns of the same type swap silently)" % (side, shortfn(bid), ix, st[:70], c, role), where=fb.span)
    rr.require_floor(40, "named column reads")
    if nfn < 20:
        rr.fail("floor:reader-functions", "only %d DBM functions with row reads were analysed (27 on the reference tree)" % nfn)
    return rr


# ------------------------------------------------------------------------------------------------------------------
# SQ8: what is bound to a placeholder is the value of the column the placeholder stands for
_PARAM_ALIAS = {
    ("tower_signature", "signature"): "AppointmentReceipt::signature() is the tower's signature",
    ("uuid", "uuid"): "",
    ("user_id", "updated_users"): "batch_remove_appointments iterates (user_id, info) pairs of `updated_users`: the key is the user id",
    ("penalty_tx", "penalty_tx"): "",
    ("key", "sk"): "the keys table holds the secret key",
    ("height", "to_db_data"): "ConfirmationStatus::to_db_data() -> (height, confirmed); that the pair is in this order and inverse to from_db_data is DX's clause",
    ("confirmed", "to_db_data"): "as above",
    ("height", "status"): "the height carried by the ConfirmationStatus argument (to_db_data followed through)",
    ("confirmed", "status"): "as above",
}
_CONVERSIONS = ("to_vec", "serialize", "to_string", "clone", "as_ref", "into", "to_owned", "as_str", "as_bytes", "deref", "borrow", "to_be_bytes", "encode", "serialize_hex")


def _param_role(P, term):
    """name under which a bound value is known where it comes from: the last named field of the parameter it is taken from, else the
    parameter's own name, else the accessor that produced it; None if it is none of these"""
    best = [None]

    def rec(x, names):
        if best[0] is not None or not isinstance(x, tuple) or not x:
            return
        if x[0] == "proj":
            fs = [e[2:] for e in x[2] if isinstance(e, str) and e.startswith("f:") and not e[2:].isdigit()]
            rec(x[1], fs + names)
            return
        if x[0] == "param":
            if names:
                best[0] = names[-1]
            else:
                b = P.bodies.get(x[1])
                best[0] = b.locals[x[2]].get("name") if b is not None and x[2] < len(b.locals) else None
            return
        if x[0] in ("call", "ret"):
            fn = x[1]
            args = x[2] if x[0] == "call" else (x[4] if len(x) > 4 and isinstance(x[4], tuple) else ())
            last = fn.split("::")[-1]
            if fn.startswith(("teos", "watchtower", "<teos", "<watchtower")) and len(args) == 1 and last not in _CONVERSIONS:
                best[0] = last
                return
            for a in args:
                rec(a, names)
            return
        for y in x[1:]:
            if isinstance(y, tuple):
                rec(y, names)
    rec(og.strip(term), [])
    return best[0]


def _placeholder_columns(st):
    """-> (list of (column, placeholder number or None for a plain `?`) in textual order, problems[])"""
    import re
    s = sql.norm(st)
    pairs, problems = [], []
    m = re.match(r"INSERT( OR REPLACE)? INTO \w+ ?\(([^)]*)\) ?VALUES ?\(([^)]*)\)(.*)$", s, re.I)
    rest = s
    if m:
        cols = [c.strip() for c in m.group(2).split(",")]
        vals = [v.strip() for v in m.group(3).split(",")]
        if len(cols) != len(vals):
            problems.append("INSERT lists %d columns and %d values" % (len(cols), len(vals)))
        for c, v in zip(cols, vals):
            mm = re.match(r"^\(?(?:\?(\d*)|(:\w+))\)?$", v)
            if mm:
                pairs.append((c, mm.group(2) if mm.group(2) else (int(mm.group(1)) if mm.group(1) else None)))
        rest = m.group(4)
    elif s.upper().startswith("INSERT"):
        return None, []
    for mm in re.finditer(r"(?:\b\w+\.)?(\w+)\s*=\s*\(?(?:\?(\d*)|(:\w+))\)?", rest):
        pairs.append((mm.group(1), mm.group(3) if mm.group(3) else (int(mm.group(2)) if mm.group(2) else None)))
    return pairs, problems


def _consts_in(x):
    """(kind, value) of the string constants inside an extracted statement / terminator"""
    out = []
    if isinstance(x, dict):
        for key in ("str", "bytes"):
            if isinstance(x.get(key), str):
                out.append(("const", x[key]))
        for v in x.values():
            out.extend(_consts_in(v))
    elif isinstance(x, list):
        for v in x:
            out.extend(_consts_in(v))
    return out


def rule_SQ8(ctx, tier):
    rr = RuleResult("SQ8", "placeholders and bound values: numbered placeholders run 1..n with n values bound; the value bound to `col = ?k` / to column k of an INSERT comes from the parameter or field of that name")
    P = ctx.prog
    from .rulekit import arg_origin
    import re
    nst = 0
    for side, prefix in (("tower", TDBM), ("client", PDBM)):
        for bid, b in sorted(P.bodies.items()):
            if not bid.startswith(prefix) or "::tests" in bid:
                continue
            for bb, t in b.calls():
                last = (call_target(t) or "").split("::")[-1]
                if last not in ("execute", "query_row", "query", "query_map", "exists", "store_data", "update_data", "remove_data", "query_and_then"):
                    continue
                sts = [sql.norm(str(x[1])) for i in range(len(t["args"])) for x in og.walk(arg_origin(ctx, b, bb, i))
                       if isinstance(x, tuple) and x and x[0] == "const" and isinstance(x[1], str) and re.match(r"\s*(SELECT|INSERT|UPDATE|DELETE) ", x[1], re.I)]
                if len(set(sts)) != 1:
                    continue
                st = sts[0]
                vals = None
                for i in range(1, len(t["args"])):
                    a = og.strip(arg_origin(ctx, b, bb, i))
                    if isinstance(a, tuple) and a and a[0] in ("tuple", "array"):
                        vals = list(a[1])
                        break
                if vals is None:
                    continue   # parameters built at run time (IN lists): SQ4 owns those
                pairs, problems = _placeholder_columns(st)
                if pairs is None:
                    continue
                nst += 1
                named = {}
                for v_ in vals:
                    v_ = og.strip(v_)
                    if isinstance(v_, tuple) and v_ and v_[0] == "tuple" and len(v_[1]) == 2:
                        k_ = og.strip(v_[1][0])
                        if isinstance(k_, tuple) and k_ and k_[0] == "const" and isinstance(k_[1], str) and k_[1].startswith(":"):
                            named[k_[1]] = v_[1][1]
                if named or any(isinstance(k, str) for c, k in pairs):
                    # named placeholders (`:uuid` with named_params!): every name used is bound and every binding is used
                    used_names = set(re.findall(r"(?<![:\w])(:[A-Za-z_]\w*)", st))
                    if used_names != set(named):
                        rr.fail("placeholders:names:%s" % shortfn(bid), "%s DBM: `%s` uses the named placeholders %s, bound are %s" % (side, st[:90], sorted(used_names), sorted(named)), where=b.line_of(bb))
                        continue
                    for c, k in pairs:
                        if not isinstance(k, str):
                            continue
                        role = _param_role(P, named[k])
                        if role is None:
                            rr.ok("%s: %s <- (unnamed value)" % (shortfn(bid), c), nontrivial=False)
                        elif role.lower() == c.lower() or (c.lower(), role.lower()) in _PARAM_ALIAS:
                            rr.ok("%s: %s <- %s" % (shortfn(bid), c, role), sample={"rule": "SQ8", "function": shortfn(bid), "column": c, "bound value": role})
                        else:
                            rr.fail("bound-value-mismatch:%s:%s<-%s" % (shortfn(bid), c, role), "%s DBM: in `%s` the placeholder of column `%s` is bound to `%s`" % (side, st[:80], c, role), where=b.line_of(bb))
                    continue
                nums = [k for c, k in pairs if k is not None]
                plain = [c for c, k in pairs if k is None]
                # an UPDATE addresses its row by the primary key and nothing else: the generic executor answers NotFound when no row was
                # touched and the callers unwrap that, so any further condition turns "nothing to change" into a panic (or a lost write)
                mupd = re.match(r"UPDATE (\w+) SET .*? WHERE (.*)$", st, re.I)
                if mupd:
                    sch_ = schema(ctx, "teos::dbm::TABLES" if side == "tower" else "watchtower_plugin::dbm::TABLES") or {}
                    pk_ = [c_.lower() for c_ in (sch_.get(mupd.group(1)) or {}).get("pk", [])]
                    conj = [c_.strip() for c_ in re.split(r"\bAND\b", mupd.group(2), flags=re.I)]
                    cols_ = []
                    plain_ok = True
                    for c_ in conj:
                        mc = re.match(r"^\(?\s*(\w+)\s*=\s*\(?(\?\d*|:\w+)\)?\s*\)?$", c_)
                        if mc:
                            cols_.append(mc.group(1).lower())
                        else:
                            plain_ok = False
                    if plain_ok and pk_ and sorted(cols_) == sorted(pk_):
                        rr.ok("%s: UPDATE %s addressed by its primary key only" % (shortfn(bid), mupd.group(1)))
                    else:
                        rr.fail("update-where-not-key:%s" % shortfn(bid), "%s DBM: `%s` does not address its row by exactly the primary key %s of `%s` (WHERE %s): with a further condition a row that exists but does not satisfy it counts as 'not found' — the executor answers NotFound, which the callers unwrap while holding the database lock" % (side, st[:100], pk_, mupd.group(1), mupd.group(2)[:60]), where=b.line_of(bb))
                # every numbered placeholder of the text counts for the 1..n discipline, also those inside an expression
                allnums = [int(x) for x in re.findall(r"\?(\d+)", st)]
                # what an UPDATE / upsert persists is the bound value itself: the in-memory twin of the write holds exactly that value
                # (PL7 / AT2), so `SET col = f(col, ?k)` makes memory and disk differ whenever f is not the identity
                mset = re.search(r"\bSET\b(.*?)(?:\bWHERE\b|$)", st, re.I)
                if mset:
                    for asg in mset.group(1).split(","):
                        ma = re.match(r"\s*(\w+)\s*=\s*(.+?)\s*$", asg)
                        if ma and not re.match(r"^\(?(\?\d*|:\w+|excluded\.\w+)\)?$", ma.group(2), re.I):
                            rr.fail("set-not-bound-value:%s:%s" % (shortfn(bid), ma.group(1)), "%s DBM: `%s` persists `%s = %s`, an expression and not the bound value: the record kept in memory holds the bound value, so what is reported and what is reloaded after a restart differ" % (side, st[:90], ma.group(1), ma.group(2)[:40]), where=b.line_of(bb))
                holes = len(re.findall(r"\?", st))
                # fragments appended to the statement at run time (`sql.push_str(" AND a.locator=(?)")`) may add placeholders
                extra = sum(str(x[1]).count("?") for fb_ in [b] for bb_ in fb_.rpo() for s_ in fb_.blocks[bb_]["s"] + [fb_.term(bb_)]
                            for x in _consts_in(s_) if isinstance(x[1], str) and sql.norm(x[1]) != st and "?" in x[1] and not re.match(r"\s*(SELECT|INSERT|UPDATE|DELETE) ", x[1], re.I))
                for pb in problems:
                    rr.fail("placeholders:%s" % shortfn(bid), "%s DBM: `%s`: %s" % (side, st[:90], pb), where=b.line_of(bb))
                if nums and plain:
                    rr.fail("placeholders:mixed:%s" % shortfn(bid), "%s DBM: `%s` mixes numbered and plain placeholders" % (side, st[:90]), where=b.line_of(bb))
                    continue
                if nums:
                    if sorted(set(allnums)) != list(range(1, len(vals) + 1)):
                        rr.fail("placeholders:numbers:%s" % shortfn(bid), "%s DBM: `%s` uses placeholders %s but %d value(s) are bound: a number is skipped, repeated in place of another, or out of range (rusqlite refuses the statement, or a column silently receives another column's value)" % (side, st[:90], sorted(set(allnums)), len(vals)), where=b.line_of(bb))
                        continue
                    m_ins = re.match(r"INSERT", st, re.I)
                    if m_ins:
                        ins = [k for c, k in pairs[:len(re.match(r"INSERT( OR REPLACE)? INTO \w+ ?\(([^)]*)\)", st, re.I).group(2).split(","))]]
                        if ins != list(range(1, len(ins) + 1)):
                            rr.fail("placeholders:insert-order:%s" % shortfn(bid), "%s DBM: the VALUES list of `%s` is %s, not ?1..?%d in column order" % (side, st[:90], ["?%d" % k for k in ins], len(ins)), where=b.line_of(bb))
                            continue
                elif holes != len(vals) and not (holes < len(vals) <= holes + extra):
                    rr.fail("placeholders:count:%s" % shortfn(bid), "%s DBM: `%s` has %d placeholder(s), %d value(s) are bound" % (side, st[:90], holes, len(vals)), where=b.line_of(bb))
                    continue
                # value bound to the placeholder of column c
                pos = 0
                for c, k in pairs:
                    pos += 1
                    idx = (k if k is not None else pos) - 1
                    if idx >= len(vals):
                        continue
                    role = _param_role(P, vals[idx])
                    if role is None:
                        rr.ok("%s: %s <- (unnamed value)" % (shortfn(bid), c), nontrivial=False)
                    elif role.lower() == c.lower() or (c.lower(), role.lower()) in _PARAM_ALIAS:
                        rr.ok("%s: %s <- %s" % (shortfn(bid), c, role), sample={"rule": "SQ8", "function": shortfn(bid), "column": c, "bound value": role})
                    else:
                        rr.fail("bound-value-mismatch:%s:%s<-%s" % (shortfn(bid), c, role), "%s DBM: in `%s` the placeholder of column `%s` is bound to `%s` (%s): a value of the same type stored under, or compared with, the wrong column" % (side, st[:80], c, role, og.show(vals[idx])[:60]), where=b.line_of(bb))
    rr.require_floor(60, "bound values")
    if nst < 40:
        rr.fail("floor:statements", "only %d statements with bound values analysed" % nst)
    return rr
