"""Ordering and effect rules for the tower: OR1 listener order, OR2 block pipeline, OR3 bootstrap/checkpoint,
EF1 who may broadcast and what, EF2 refund flag, EF3 constants."""
import re

from .facts import call_names, call_target
from .framework import RuleResult
from . import origin as og
from .rulekit import (sites, sites_containing, arg_origin, has_call, find_calls, const_of, variant_fact, truth_fact,
                      switch_succ_with, always_reaches, is_iter_next, loc, shortfn, facts_at, subject_is_call)

W = "teos::watcher::Watcher::"
RSP = "teos::responder::Responder::"
GK = "teos::gatekeeper::Gatekeeper::"
DBM = "teos::dbm::DBM::"
CARRIER = "teos::carrier::Carrier::"
TXI = "teos::tx_index::TxIndex::<K, V>::"
W_FBC = "<teos::watcher::Watcher as lightning::chain::Listen>::filtered_block_connected"
W_BD = "<teos::watcher::Watcher as lightning::chain::Listen>::block_disconnected"
R_FBC = "<teos::responder::Responder as lightning::chain::Listen>::filtered_block_connected"
R_BD = "<teos::responder::Responder as lightning::chain::Listen>::block_disconnected"
G_FBC = "<teos::gatekeeper::Gatekeeper as lightning::chain::Listen>::filtered_block_connected"
G_BD = "<teos::gatekeeper::Gatekeeper as lightning::chain::Listen>::block_disconnected"
POLL = "teos::chain_monitor::ChainMonitor::<'a, P, C, L>::poll_best_tip"
MAIN = "teosd::main"
ATOMIC_STORE = "std::sync::atomic::Atomic::<u32>::store"
DECRYPT = "teos_common::cryptography::decrypt"


def call_args(t):
    return t[2] if t[0] == "call" else t[4]


# ------------------------------------------------------------------------------------------ OR1
def flatten_listener(ty):
    """'&(Arc<A>, &(Arc<B>, Arc<C>))' -> ['A','B','C'] (left to right, the order lightning's tuple impl calls them)"""
    ty = ty.replace("&", " ").replace("mut ", " ")
    toks = re.findall(r"[A-Za-z_][A-Za-z0-9_:]*|[(),<>]", ty)
    out = []
    skip = {"std::sync::Arc", "std::boxed::Box", "std::rc::Rc"}
    for t in toks:
        if t in "(),<>" or t in skip:
            continue
        out.append(t)
    return out


def rule_OR1(ctx, tier):
    rr = RuleResult("OR1", "chain listeners are registered in the order Gatekeeper, Watcher, Responder")
    P = ctx.prog
    want = ["teos::gatekeeper::Gatekeeper", "teos::watcher::Watcher", "teos::responder::Responder"]
    found = 0
    for bid in P.family(MAIN):
        b = P.bodies[bid]
        for bb, t in b.calls():
            tgt = call_target(t) or ""
            if tgt.startswith(("lightning_block_sync::SpvClient", "teos::chain_monitor::ChainMonitor")) and tgt.endswith(("::new", "::poll_best_tip", "::monitor_chain")):
                targs = t.get("targs", [])
                if len(targs) < 4:
                    continue
                found += 1
                got = flatten_listener(targs[3])
                if got == want:
                    rr.ok("listener-order@%s" % shortfn(tgt), sample={"rule": "OR1", "call": tgt, "L": targs[3], "flattened": got})
                else:
                    rr.fail("listener-order:%s" % ">".join(x.split("::")[-1] for x in got),
                            "chain listeners are registered as %s (type argument L = `%s`); the Gatekeeper must see a block first so that Watcher and Responder only act for users that still exist, and the Watcher must hand breaches over before the Responder checks confirmations" % (got, targs[3]),
                            where=b.line_of(bb))
    if not found:
        rr.anchor_missing("SpvClient::new / ChainMonitor::* with listener type argument in teosd::main")
    rr.require_floor(3, "listener-typed calls")
    return rr


# ------------------------------------------------------------------------------------------ OR2
def _must(ctx, rr, fn, needed, label):
    b = ctx.prog.require(fn)
    mc = ctx.pf.must_call()[b.id]
    for n in needed:
        if n in mc:
            rr.ok("%s must-call %s" % (label, shortfn(n)), sample={"rule": rr.rule, "function": fn, "on every path to return calls": n})
        else:
            rr.fail("%s:skips:%s" % (label, shortfn(n)),
                    "`%s` has a path to its return that does not call `%s`" % (shortfn(fn), shortfn(n)), where=b.span)
    return b


def _atomic_store_of(ctx, rr, b, field, want, label):
    """the store into self.<field> stores `want` ('param:<n>' or 'param:<n>-1')"""
    ss = [bb for bb in sites(b, ATOMIC_STORE) if "f:%s" % field in og.show(arg_origin(ctx, b, bb, 0))]
    if not ss:
        rr.fail("%s:no-height-store" % label, "`%s` never stores into self.%s" % (shortfn(b.id), field), where=b.span)
        return
    for bb in ss:
        v = arg_origin(ctx, b, bb, 1)
        ok = False
        if want[1] == 0:
            ok = v == ("param", b.id, want[0])
        else:
            ok = (v[0] == "bin" and v[1] in ("Sub", "SubUnchecked", "SubWithOverflow") and v[2] == ("param", b.id, want[0]) and const_of(v[3]) and const_of(v[3])[0] == want[1])
            if not ok and v[0] == "proj" and v[1][0] == "bin":   # checked subtraction: (a - b).0
                vv = v[1]
                ok = vv[1] in ("SubWithOverflow",) and vv[2] == ("param", b.id, want[0]) and const_of(vv[3]) and const_of(vv[3])[0] == want[1]
        if ok:
            rr.ok("%s height store" % label, sample={"rule": rr.rule, "function": b.id, "stores": og.show(v), "into": field})
        else:
            rr.fail("%s:height-store-value" % label, "`%s` stores `%s` into %s (expected the block height%s)" % (shortfn(b.id), og.show(v), field, " minus %d" % want[1] if want[1] else ""), where=b.line_of(bb))
    rets = b.return_blocks()
    before = ctx.pf.called_before(b)
    for r in rets:
        if ATOMIC_STORE not in before.get(r, set()):
            rr.fail("%s:return-without-height-store" % label, "`%s` can return without updating %s" % (shortfn(b.id), field), where=b.span)


def _status_possible(ctx, facts, dterm, built):
    """variants a ConfirmationStatus value (origin term dterm) can still have given the facts met on a path: variant tests on
    it and truth values of predicates (accepted(), ...) applied to it, judged with the predicates' own tables"""
    from .tables import enum_pred_table
    P = ctx.prog
    poss = set(built)
    for ft in facts:
        subj = og.strip(ft[1])
        if ft[0] == "variant" and subj == dterm:
            poss &= {ft[2]}
        elif ft[0] == "variant_in" and subj == dterm:
            poss &= set(ft[2])
        elif ft[0] == "truth":
            raw = ft[1]
            pred = args_ = None
            if isinstance(raw, tuple) and raw and raw[0] == "ret" and raw[1] in P.bodies:
                pred, args_ = raw[1], raw[4]
            elif isinstance(subj, tuple) and subj and subj[0] == "call" and subj[1] in P.bodies:
                pred, args_ = subj[1], subj[2]
            if pred and args_ and og.strip(args_[0]) == dterm:
                tb = enum_pred_table(ctx, pred) or {}
                poss &= {v_ for v_ in poss if tb.get(v_) in (ft[2], None)}
    return poss


def _status_built(ctx, fn, depth=0):
    """ConfirmationStatus variants a function can return (aggregates in its return origin, plus those of status-returning callees)"""
    P = ctx.prog
    b = P.bodies.get(fn)
    if b is None or depth > 3:
        return set()
    rt = ctx.og.local(b, 0)
    out = {x[2] for x in og.walk(rt) if isinstance(x, tuple) and x and x[0] == "agg" and x[1].endswith("ConfirmationStatus")}
    for c in og.calls_in(rt):
        if c != fn and c in P.bodies and P.bodies[c].locals[0]["ty"].endswith("ConfirmationStatus"):
            out |= _status_built(ctx, c, depth + 1)
    return out


def _del_unless_absent(ctx, b, start, dels):
    """from `start` every path reaches one of `dels`, except through an edge on which the appointment is known not to exist
    (`appointment_exists(..)` false / a load that answered None)"""
    def absent(fs):
        return any((f[0] == "truth" and f[2] is False and has_call(f[1], "appointment_exists")) or
                   (f[0] == "variant" and f[2] == "None" and (has_call(f[1], "load_appointment") or has_call(f[1], "get_appointment_length"))) for f in fs)
    from .rulekit import reaches_unless
    return bool(dels) and reaches_unless(ctx, b, [start], dels, [], absent)


def rule_OR2_watcher(ctx, tier):
    rr = RuleResult("OR2w", "Watcher block pipeline: cache update, DB intersection, decrypt, hand-over, failures to the delete list — on all paths")
    P = ctx.prog
    b = _must(ctx, rr, W_FBC, [TXI + "update", W + "get_breaches", DBM + "batch_check_locators_exist", W + "handle_breaches"], "Watcher::fbc")
    _atomic_store_of(ctx, rr, b, "last_known_block_height", (4, 0), "Watcher::fbc")
    # handle_breaches consumes exactly what get_breaches returned, which was computed from this block's transactions
    for bb in sites(b, W + "handle_breaches"):
        a = arg_origin(ctx, b, bb, 1)
        if has_call(a, "Watcher::get_breaches"):
            rr.ok("handle_breaches(get_breaches(..))")
        else:
            rr.fail("fbc:handle_breaches-arg", "handle_breaches is not fed by get_breaches (got %s)" % og.show(a), where=b.line_of(bb))
    # delete_appointments(invalid, false) whenever handle_breaches returned Some
    dels = sites(b, GK + "delete_appointments")
    edges = switch_succ_with(ctx, b, "variant", "Some", "Watcher::handle_breaches")
    if not edges:
        rr.fail("fbc:invalid-not-examined", "the result of handle_breaches is not matched for `Some(invalid)`", where=b.span)
    for sw, succ in edges:
        if always_reaches(b, [succ], dels):
            rr.ok("invalid breaches -> delete_appointments")
        else:
            rr.fail("fbc:invalid-not-deleted", "a path from `Some(invalid_breaches)` to return skips Gatekeeper::delete_appointments", where=b.line_of(sw))
    for bb in dels:
        a = arg_origin(ctx, b, bb, 1)
        if not has_call(a, "Watcher::handle_breaches"):
            rr.fail("fbc:delete-arg", "delete_appointments in Watcher::filtered_block_connected is fed `%s`, not the invalid breaches" % og.show(a), where=b.line_of(bb))
    # get_breaches: intersect with the DB
    g = _must(ctx, rr, W + "get_breaches", [DBM + "batch_check_locators_exist"], "get_breaches")
    # handle_breaches: per (locator, uuid): decrypt -> Ok: handle_breach; Rejected -> push; Err -> push
    h = P.require(W + "handle_breaches")
    dec = sites(h, DECRYPT)
    hb = sites(h, RSP + "handle_breach")
    pushes = sites(h, "std::vec::Vec::<T, A>::push")
    if len(dec) != 1 or len(hb) != 1:
        rr.fail("hb:shape", "handle_breaches: expected one decrypt and one handle_breach call, found %d/%d" % (len(dec), len(hb)), where=h.span)
        return rr
    # decrypt key is the txid of the dispute transaction matched for this locator, blob is the stored appointment's
    key = arg_origin(ctx, h, dec[0], 1)
    blob = arg_origin(ctx, h, dec[0], 0)
    breach_new = sites(h, "teos::watcher::Breach::new")
    if breach_new:
        disp = arg_origin(ctx, h, breach_new[0], 0)
        pen = arg_origin(ctx, h, breach_new[0], 1)
        kcalls = find_calls(key, "Transaction::compute_txid")
        if kcalls and og.strip(call_args(kcalls[0])[0]) == og.strip(disp):
            rr.ok("hb:decrypt key = txid(dispute_tx of the breach)", sample={"rule": "OR2w", "decrypt key": og.show(key)[:160], "Breach.dispute_tx": og.show(disp)[:160]})
        else:
            rr.fail("hb:decrypt-key", "the blob is decrypted with `%s`, which is not the txid of the dispute transaction put into the Breach (`%s`)" % (og.show(key)[:200], og.show(disp)[:200]), where=h.line_of(dec[0]))
        if has_call(pen, "cryptography::decrypt") and pen[0] == "proj" and pen[2][:2] == ("v:Ok", "f:0"):
            rr.ok("hb:penalty = Ok payload of decrypt")
        else:
            rr.fail("hb:penalty-origin", "Breach.penalty_tx is `%s`, not the decrypted blob" % og.show(pen)[:200], where=h.line_of(breach_new[0]))
    else:
        rr.fail("hb:no-breach", "handle_breaches builds no Breach", where=h.span)
    if has_call(blob, "DBM::load_appointment"):
        rr.ok("hb:blob from stored appointment")
    else:
        rr.fail("hb:blob-origin", "decrypt input is `%s`, not the blob of the stored appointment" % og.show(blob)[:200], where=h.line_of(dec[0]))
    # Ok arm must reach handle_breach before the next iteration
    ok_edges = switch_succ_with(ctx, h, "variant", "Ok", "cryptography::decrypt", exact=True)
    err_edges = switch_succ_with(ctx, h, "variant", "Err", "cryptography::decrypt", exact=True)
    rej_edges = switch_succ_with(ctx, h, "variant", "Rejected", "Responder::handle_breach", exact=True)
    fail = lambda bb: is_iter_next(h, bb)
    if not ok_edges or not err_edges or not rej_edges:
        rr.fail("hb:arms", "handle_breaches does not distinguish decrypt Ok/Err and handle_breach Rejected (%d/%d/%d)" % (len(ok_edges), len(err_edges), len(rej_edges)), where=h.span)
    for sw, succ in ok_edges:
        if always_reaches(h, [succ], hb, fail):
            rr.ok("hb:Ok -> handle_breach")
        else:
            rr.fail("hb:ok-skips-responder", "a decrypted breach can reach the next iteration / return without being handed to Responder::handle_breach", where=h.line_of(sw))
    for sw, succ in err_edges:
        if always_reaches(h, [succ], pushes, fail):
            rr.ok("hb:Err -> invalid list")
        else:
            rr.fail("hb:err-not-dropped", "an appointment whose blob does not decrypt is not put on the invalid list", where=h.line_of(sw))
    for sw, succ in rej_edges:
        if always_reaches(h, [succ], pushes, fail):
            rr.ok("hb:Rejected -> invalid list")
        else:
            rr.fail("hb:rejected-not-dropped", "an appointment whose penalty the node rejected is not put on the invalid list", where=h.line_of(sw))
    # only those are pushed: within one iteration, every path to a push crosses a decrypt-Err edge or a Rejected edge
    # (edge-cut form, so arms merged as `Err(_) | Ok(Rejected(_))` are judged path by path)
    from .rulekit import reach_without_edges
    iter_heads = [bb for bb in h.rpo() if is_iter_next(h, bb)]
    cut = set(err_edges) | set(rej_edges)
    for p in pushes:
        starts = iter_heads or [0]
        if any(reach_without_edges(h, st_, p, cut, stop=lambda x: is_iter_next(h, x)) for st_ in starts):
            rr.fail("hb:push-unguarded", "an appointment is put on the invalid (to be deleted) list on a path that is neither a decryption failure nor a rejection", where=h.line_of(p))
        else:
            rr.ok("hb:push guarded@%d" % h.orig(p))
    # every uuid of every breach is visited: no early exit from the loops other than exhaustion
    nexts = [bb for bb in h.rpo() if is_iter_next(h, bb)]
    if len(nexts) != 2:
        rr.fail("hb:loops", "expected 2 loops (locators x uuids) in handle_breaches, found %d" % len(nexts), where=h.span)
    else:
        outer, inner = nexts[0], nexts[1]

        def edge_succ(nb, variant):
            out = []
            for sw in h.rpo():
                if h.term(sw)["k"] != "switch":
                    continue
                for succ, facts in ctx.pf.switch_facts(h, sw).items():
                    for f in facts:
                        if f[0] == "variant" and f[2] == variant and f[1][0] in ("call", "ret") and f[1][-1 if f[1][0] == "call" else 3] == (h.id, h.orig(nb)):
                            out.append(succ)
            return out
        checks = [("outer-some", edge_succ(outer, "Some"), {inner}, lambda x: x == outer),
                  ("inner-some", edge_succ(inner, "Some"), {inner}, lambda x: x == outer),
                  ("inner-none", edge_succ(inner, "None"), {outer}, None)]
        for name, starts, tgt, fl in checks:
            if not starts:
                rr.fail("hb:loop-shape:" + name, "cannot find the %s edge of the breach loops" % name, where=h.span)
            elif always_reaches(h, starts, tgt, fl):
                rr.ok("hb:loop " + name)
            else:
                rr.fail("hb:early-exit:" + name, "handle_breaches can leave a loop before every (locator, uuid) pair has been handled (a `break`/`return` on the %s path)" % name, where=h.line_of(starts[0]))
    from .rulekit import some_iff_nonempty
    some_iff_nonempty(ctx, rr, h, "handle_breaches")
    # the late-trigger path (store_triggered_appointment): the stored appointment is given up only when the Responder
    # answered Rejected — "already on chain" (IrrevocablyResolved) is not a refusal
    stt = P.bodies.get(W + "store_triggered_appointment")
    if stt is None:
        rr.anchor_missing(W + "store_triggered_appointment")
    else:
        from .rulekit import enumerate_paths
        hbs = sites(stt, RSP + "handle_breach")
        dels = sites(stt, GK + "delete_appointments")
        built = _status_built(ctx, RSP + "handle_breach")
        # the appointment row exists before the Responder is asked to store a tracker for it (trackers reference appointments)
        before_st = ctx.pf.called_before(stt)
        for hb_ in hbs:
            if (W + "store_appointment") in before_st.get(hb_, set()):
                rr.ok("late trigger: appointment stored before the hand-over to the Responder")
            else:
                rr.fail("st:handover-before-store", "store_triggered_appointment hands the breach to the Responder on a path that has not stored the appointment: the tracker row has no appointment to reference (the insert is refused, or the data exists only in the tracker), and the receipt stands for an appointment that was never written", where=stt.line_of(hb_))
        # the version that arrives here has been charged (or credited) against the version that is stored, if any. When this one
        # turns out not to decrypt it is not stored — so the stored one cannot stay either: a 3-slot appointment that lingers
        # (triggered, the node said 'already in chain': neither a tracker nor a refusal) replaced by a 1-slot blob of junk gives two
        # slots back and keeps the three it occupies, again and again (C07: nobody holds more than they were granted)
        dec_err = switch_succ_with(ctx, stt, "variant", "Err", "cryptography::decrypt")
        if not dec_err:
            rr.fail("st:no-decrypt-error-arm", "store_triggered_appointment has no arm for a blob that does not decrypt", where=stt.span)
        for sw_, succ_ in dec_err:
            if dels and always_reaches(stt, [succ_], dels, None) or _del_unless_absent(ctx, stt, succ_, dels):
                rr.ok("late trigger: a version that does not decrypt takes the stored one with it")
            else:
                rr.fail("st:invalid-keeps-older-version", "on the arm of store_triggered_appointment where the blob does not decrypt nothing deletes an OLDER stored version of the appointment, although the balance has just been settled against the new one: a lingering multi-slot appointment (its penalty 'already in chain', so neither tracked nor refused) replaced by an undecryptable one-slot blob returns the difference and goes on occupying its slots — repeatable, the user's slots grow without bound", where=stt.line_of(sw_))
        if len(hbs) != 1 or not dels or not built:
            rr.fail("st:shape", "store_triggered_appointment: expected one handle_breach call and a delete_appointments call (found %d / %d; verdicts %s)" % (len(hbs), len(dels), sorted(built)), where=stt.span)
        else:
            dterm = og.strip(ctx.og.operand(stt, {"m": stt.term(hbs[0])["dest"]}))
            bad = set()
            for path, facts, at_ret in enumerate_paths(ctx, stt, stt.succ(hbs[0]), stop=lambda x: x in dels, budget=20000):
                if path and path[-1] in dels:
                    bad |= _status_possible(ctx, facts, dterm, built) - {"Rejected"}
            if not bad:
                rr.ok("late trigger: the appointment is deleted only if handle_breach answered Rejected (verdicts it can give: %s)" % sorted(built))
            else:
                rr.fail("st:deleted-without-rejection:%s" % ",".join(sorted(bad)), "`store_triggered_appointment` deletes the appointment it has just stored when the Responder answers %s: the user gets a receipt for an appointment the tower neither holds nor tracks although the node refused nothing" % sorted(bad), where=stt.line_of(dels[0]))
    rr.require_floor(18, "OR2w instances")
    return rr


def rule_OR2_responder(ctx, tier):
    rr = RuleResult("OR2r", "Responder pipelines: node decision, tracker iff accepted, confirmations, reorg handling, rebroadcast, receipts cleared")
    P = ctx.prog
    hb = P.require(RSP + "handle_breach")
    # status has exactly the three sources
    acc = sites(hb, "teos::responder::ConfirmationStatus::accepted")
    addt = sites(hb, RSP + "add_tracker")
    if len(acc) != 1 or len(addt) != 1:
        rr.fail("handle_breach:shape", "expected one accepted() test and one add_tracker call (found %d/%d)" % (len(acc), len(addt)), where=hb.span)
    else:
        st = arg_origin(ctx, hb, acc[0], 0)
        alts = st[1] if st[0] == "phi" else (st,)
        kinds = set()
        for a in alts:
            if a[0] == "agg" and a[1].endswith("ConfirmationStatus"):
                kinds.add(a[2])
            elif has_call(a, "Carrier::send_transaction"):
                kinds.add("send_transaction")
            else:
                kinds.add("other:" + og.show(a)[:60])
        if kinds == {"ConfirmedIn", "InMempoolSince", "send_transaction"}:
            rr.ok("handle_breach: status in {txindex hit, in mempool, send_transaction}", sample={"rule": "OR2r", "status sources": sorted(kinds)})
        else:
            rr.fail("handle_breach:status-sources:%s" % ",".join(sorted(kinds)), "the status returned by handle_breach comes from %s; expected exactly {ConfirmedIn (tx index hit), InMempoolSince (in mempool), Carrier::send_transaction}" % sorted(kinds), where=hb.span)
        # each constructed under its condition
        for bb in sites(hb, CARRIER + "send_transaction"):
            if variant_fact(ctx, hb, bb, "None", "TxIndex", "get") and truth_fact(ctx, hb, bb, "Carrier::in_mempool") is False:
                rr.ok("send only if not in index and not in mempool")
            else:
                rr.fail("handle_breach:send-condition", "send_transaction is not guarded by (not in tx index) and (not in mempool)", where=hb.line_of(bb))
        # the tracker carries the status that was decided and the same breach
        tv = truth_fact(ctx, hb, addt[0], "ConfirmationStatus::accepted")
        if tv is True:
            rr.ok("add_tracker only if accepted")
        else:
            rr.fail("handle_breach:tracker-without-acceptance", "Responder::add_tracker is reachable without `status.accepted()` being true: the tower would report dispute_responded for a penalty the node does not have", where=hb.line_of(addt[0]))
        for sw, succ in switch_succ_with(ctx, hb, "truth", True, "ConfirmationStatus::accepted"):
            if always_reaches(hb, [succ], addt):
                rr.ok("accepted -> add_tracker")
            else:
                rr.fail("handle_breach:accepted-without-tracker", "an accepted penalty can leave handle_breach without a tracker being stored", where=hb.line_of(sw))
        if og.strip(arg_origin(ctx, hb, addt[0], 4)) == og.strip(st):
            rr.ok("tracker status = decided status")
        else:
            rr.fail("handle_breach:tracker-status", "add_tracker is given a status different from the one decided", where=hb.line_of(addt[0]))
        # the returned status is the decided one
    at = P.require(RSP + "add_tracker")
    if DBM + "store_tracker" in ctx.pf.must_call()[at.id]:
        rr.ok("add_tracker must-call store_tracker")
    else:
        rr.fail("add_tracker:no-store", "add_tracker can return without calling DBM::store_tracker", where=at.span)

    f = _must(ctx, rr, R_FBC, [CARRIER + "update_height", TXI + "update", RSP + "check_confirmations",
                               RSP + "rebroadcast_stale_txs", CARRIER + "clear_receipts"], "Responder::fbc")

    def reorg_gate(bb):
        """value of the must-fact `reorged_trackers is not empty` at bb — through the helper or spelled out"""
        for ft in facts_at(ctx, f, bb):
            if ft[0] != "truth":
                continue
            t_, val = og.strip(ft[1]), ft[2]
            while isinstance(t_, tuple) and t_ and t_[0] == "un" and t_[1] == "Not":
                t_, val = og.strip(t_[2]), not val
            if isinstance(t_, tuple) and t_ and t_[0] == "call" and t_[1].split("::")[-1] == "is_empty" and "f:reorged_trackers" in og.show(t_):
                return not val   # is_empty == False  <=>  coming from a reorg
            if isinstance(t_, tuple) and t_ and t_[0] == "call" and t_[1].endswith("Responder::coming_from_reorg"):
                return val
        return None

    def reorg_true_edges():
        out = []
        for sw in f.rpo():
            if f.term(sw)["k"] != "switch":
                continue
            for succ in f.succ(sw):
                if reorg_gate(succ) is True and reorg_gate(sw) is None:
                    out.append((sw, succ))
        return out
    before = ctx.pf.called_before(f)
    for bb in sites(f, CARRIER + "clear_receipts"):
        if RSP + "rebroadcast_stale_txs" in before.get(bb, set()) and RSP + "check_confirmations" in before.get(bb, set()):
            rr.ok("clear_receipts last")
        else:
            rr.fail("fbc:clear-receipts-early", "issued receipts are cleared before this block's (re)broadcasts", where=f.line_of(bb))
    for bb in sites(f, RSP + "check_confirmations"):
        if TXI + "update" in before.get(bb, set()) and CARRIER + "update_height" in before.get(bb, set()):
            rr.ok("height and tx index updated before check_confirmations")
        else:
            rr.fail("fbc:check-before-update", "confirmations are checked before the tx index / carrier height know this block", where=f.line_of(bb))
        if og.strip(arg_origin(ctx, f, bb, 2)) == ("param", f.id, 4):
            rr.ok("check_confirmations(height of this block)")
        else:
            rr.fail("fbc:check-height", "check_confirmations is not given this block's height", where=f.line_of(bb))
    # both re-submission passes pick their trackers by the status stored in the database / the reorged set, which
    # check_confirmations brings up to this block first (a penalty mined in this block is ConfirmedIn, not stale;
    # a tracker confirmed again leaves the reorged set)
    for name in ("rebroadcast_stale_txs", "handle_reorged_txs"):
        for bb in sites(f, RSP + name):
            if RSP + "check_confirmations" in before.get(bb, set()):
                rr.ok("check_confirmations before %s" % name)
            else:
                rr.fail("fbc:%s-before-confirmations" % name, "%s runs on a path that has not yet recorded this block's confirmations: a penalty mined in this very block is still `InMempoolSince` in the database and is re-submitted to a node that has it in the chain (rejected, or `IrrevocablyResolved` reaching the status update); and once handle_reorged_txs has drained the reorged set, check_confirmations no longer skips trackers whose stored height is above this block (`current_height - h` underflows)" % name, where=f.line_of(bb))
    hr = sites(f, RSP + "handle_reorged_txs")
    if not hr:
        rr.fail("fbc:no-reorg-handler", "Responder::filtered_block_connected never calls handle_reorged_txs", where=f.span)
    for bb in hr:
        if reorg_gate(bb) is True:
            rr.ok("handle_reorged_txs only if coming_from_reorg")
        else:
            rr.fail("fbc:reorg-handler-ungated", "handle_reorged_txs is called without `coming_from_reorg()`", where=f.line_of(bb))
    gate_edges = reorg_true_edges()
    if not gate_edges:
        rr.fail("fbc:no-reorg-gate", "Responder::filtered_block_connected never tests whether reorged trackers are waiting", where=f.span)
    for sw, succ in gate_edges:
        if always_reaches(f, [succ], hr):
            rr.ok("coming_from_reorg -> handle_reorged_txs")
        else:
            rr.fail("fbc:reorg-not-handled", "after a reorg, a path skips handle_reorged_txs", where=f.line_of(sw))
    # rejected lists reach the no-refund delete, completed list reaches the refunding delete
    dels = sites(f, GK + "delete_appointments")
    for sw, succ in switch_succ_with(ctx, f, "variant", "Some", "Responder::check_confirmations"):
        tgt = [d for d in dels if has_call(arg_origin(ctx, f, d, 1), "Responder::check_confirmations")]
        if tgt and always_reaches(f, [succ], tgt):
            rr.ok("completed -> delete_appointments")
        else:
            rr.fail("fbc:completed-not-deleted", "completed trackers are not handed to delete_appointments on every path", where=f.line_of(sw))
    ext = sites(f, "std::iter::Extend::extend") + sites_containing(f, "Extend", "extend")
    tgt_all_refund = {d for d in dels if has_call(arg_origin(ctx, f, d, 1), "Responder::check_confirmations")}
    from .rulekit import reach_without_edges
    empty_true = set(switch_succ_with(ctx, f, "truth", True, "is_empty"))
    rets = f.return_blocks()
    for name in ("Responder::handle_reorged_txs", "Responder::rebroadcast_stale_txs"):
        short = name.split("::")[-1]
        es = switch_succ_with(ctx, f, "variant", "Some", name)
        ext_t = [e for e in set(ext) if has_call(arg_origin(ctx, f, e, 1), name)]
        direct = [d for d in dels if has_call(arg_origin(ctx, f, d, 1), name)]
        acc_ok = bool(es and ext_t) and all(always_reaches(f, [succ], ext_t) for sw, succ in es)
        val_ok = False
        if direct:
            # value form: the list handed to the no-refund delete is built from x()'s result (e.g. a match on the pair of
            # results); from the call on, every path reaches that delete unless the list was found empty
            xs = sites(f, RSP + short)
            cut = empty_true | {(d, s_) for d in direct for s_ in f.succ(d)}
            leak = [x for x in xs if any(reach_without_edges(f, s0, r_, cut, stop=lambda q: q in direct) for s0 in f.succ(x) for r_ in rets)]
            val_ok = bool(xs) and not leak
        if acc_ok:
            # ... and what was accumulated is handed to the no-refund delete on every path, unless the list was found empty
            from .rulekit import reaches_unless
            nr = [d for d in dels if d not in tgt_all_refund]

            def list_empty(facts):
                return any(f_[0] == "truth" and f_[2] is True and has_call(f_[1], "is_empty") for f_ in facts)
            if nr and all(reaches_unless(ctx, f, f.succ(e), nr, rets, list_empty) for e in ext_t):
                rr.ok("%s rejected -> trackers_to_delete (accumulated) -> delete_appointments(.., false)" % short)
            else:
                rr.fail("fbc:%s-rejected-not-deleted" % short, "the trackers %s reported as rejected are accumulated but a path to the end of filtered_block_connected skips the no-refund delete although the list is not known to be empty: rejected trackers (and their appointments) stay in the database and are re-sent on every block" % short, where=f.line_of(ext_t[0]))
        elif val_ok:
            rr.ok("%s rejected -> argument of the no-refund delete" % short)
        elif es or direct:
            rr.fail("fbc:%s-rejected-kept" % short, "trackers rejected by %s are not queued for deletion" % name, where=f.line_of(es[0][0]) if es else f.span)
        else:
            rr.fail("fbc:%s-result-ignored" % short, "the rejected list of %s is not examined" % name, where=f.span)
    # check_confirmations: completion only on == IRREVOCABLY_RESOLVED, status update on first confirmation
    cc0 = P.require(RSP + "check_confirmations")
    # the per-tracker body: the loop in check_confirmations itself, or the closure of an iterator chain that replaced it
    cc = cc0
    for cid_ in P.family(cc0.id):
        if cid_ != cc0.id and sites(P.bodies[cid_], DBM + "update_tracker_status"):
            cc = P.bodies[cid_]
    in_closure = cc.id != cc0.id
    pushes = sites(cc, "std::vec::Vec::<T, A>::push")
    if in_closure and not pushes:
        # `filter_map(|..| .. Some(uuid) ..)`: answering Some(uuid) is what declares the tracker completed
        pushes = [bb for bb in cc.rpo() for s_ in cc.blocks[bb]["s"] if s_["k"] == "assign" and s_["d"] == [0] and s_["rv"]["k"] == "agg" and s_["rv"].get("variant") == "Some"]
    iter_boundary = (lambda x: False) if in_closure else (lambda x: is_iter_next(cc, x))
    if len(pushes) != 1:
        rr.fail("cc:pushes", "expected one push to completed_trackers, found %d" % len(pushes), where=cc.span)
    for p in pushes:
        ok = False
        from .rulekit import relations
        for op, l, r in relations(ctx, cc, p):
            k = const_of(r)
            if op in ("Eq", "Ge") and k and k[1] == "teos_common::constants::IRREVOCABLY_RESOLVED":
                oo = l[1] if l[0] == "proj" else l
                if oo[0] == "bin" and oo[1].startswith("Sub") and oo[2] == ("param", cc0.id, 3):
                    ok = True
        if ok and variant_fact(ctx, cc, p, "ConfirmedIn"):
            rr.ok("cc: completed iff current_height - h == IRREVOCABLY_RESOLVED (status ConfirmedIn)", sample={"rule": "OR2r", "completion guard": "Eq(Sub(current_height, h), IRREVOCABLY_RESOLVED) under ConfirmedIn(h)"})
        else:
            rr.fail("cc:completion-guard", "a tracker is declared completed without the guard `current_height - h == IRREVOCABLY_RESOLVED` on a ConfirmedIn(h) status", where=cc.line_of(p))
    ups = sites(cc, DBM + "update_tracker_status")
    for u in ups:
        st = arg_origin(ctx, cc, u, 2)
        in_block = any(f[0] == "truth" and f[2] is True and has_call(f[1], "HashSet", "contains") and ("param", cc0.id, 2) in list(og.walk(f[1])) for f in facts_at(ctx, cc, u))
        if st[0] == "agg" and st[2] == "ConfirmedIn" and st[3][0][1] == ("param", cc0.id, 3) and in_block:
            rr.ok("cc: first confirmation -> ConfirmedIn(current_height)")
        else:
            rr.fail("cc:first-confirmation", "tracker status update in check_confirmations is not `ConfirmedIn(current_height)` under `txids.contains(penalty_txid)`", where=cc.line_of(u))
    if not ups:
        rr.fail("cc:no-status-update", "check_confirmations never records a first confirmation", where=cc.span)
    # a penalty seen in this block is confirmed NOW, whatever the reorg bookkeeping says: the first-confirmation
    # branch has priority over the reorged skip, and it clears the uuid from the reorged set
    def _reorged_fact(bb):
        for f in facts_at(ctx, cc, bb):
            if f[0] == "truth" and has_call(f[1], "HashSet", "contains") and "f:reorged_trackers" in og.show(f[1]):
                return f[2]
        return None
    rem = [x for x in sites_containing(cc, "HashSet", "::remove") if "f:reorged_trackers" in og.show(arg_origin(ctx, cc, x, 0))]
    for u in ups:
        if _reorged_fact(u) is None:
            rr.ok("cc: first confirmation recorded regardless of the reorged flag")
        else:
            rr.fail("cc:confirmation-masked-by-reorg", "a penalty confirmed in this block is only recorded when the tracker is not in the reorged set: a re-confirmed reorged tracker is left for handle_reorged_txs, which stamps it InMempoolSince and it is never seen confirmed again", where=cc.line_of(u))
        if rem and always_reaches(cc, cc.succ(u), rem, iter_boundary):
            rr.ok("cc: confirmed tracker leaves the reorged set")
        else:
            rr.fail("cc:confirmed-stays-reorged", "a tracker confirmed in this block is not removed from the reorged set: handle_reorged_txs will re-send it and overwrite its status", where=cc.line_of(u))
    for p in pushes:
        if _reorged_fact(p) is False:
            rr.ok("cc: reorged trackers are never declared completed")
        else:
            rr.fail("cc:reorged-completed", "a tracker in the reorged set (stale DB status) can be declared completed", where=cc.line_of(p))
    # reorged trackers are skipped
    # rebroadcast: status threshold, send penalty, rejected -> list, else status update
    rb = P.require(RSP + "rebroadcast_stale_txs")
    for bb in sites(rb, DBM + "load_trackers_with_confirmation_status"):
        st = arg_origin(ctx, rb, bb, 1)
        ok = False
        if st[0] == "agg" and st[2] == "InMempoolSince":
            v = st[3][0][1]
            vv = v[1] if v[0] == "proj" else v
            if vv[0] == "bin" and vv[1].startswith("Sub") and vv[2] == ("param", rb.id, 2):
                k = const_of(vv[3])
                if k and k[1] and k[1].endswith("CONFIRMATIONS_BEFORE_RETRY") and k[0] == 6:
                    ok = True
        if ok:
            rr.ok("rebroadcast threshold = InMempoolSince(height - CONFIRMATIONS_BEFORE_RETRY[6])")
        else:
            rr.fail("rb:threshold", "stale trackers are selected with `%s`, expected InMempoolSince(height - CONFIRMATIONS_BEFORE_RETRY)" % og.show(st)[:160], where=rb.line_of(bb))
    for bb in sites(rb, CARRIER + "send_transaction"):
        a = arg_origin(ctx, rb, bb, 1)
        if has_call(a, "DBM::load_tracker") and "f:penalty_tx" in og.show(a):
            rr.ok("rebroadcast sends the stored penalty")
        else:
            rr.fail("rb:tx", "rebroadcast sends `%s`" % og.show(a)[:120], where=rb.line_of(bb))
    _reject_or_update(ctx, rr, rb, "rb")
    from .rulekit import some_iff_nonempty
    for fn_ in ("check_confirmations", "handle_reorged_txs", "rebroadcast_stale_txs"):
        some_iff_nonempty(ctx, rr, P.require(RSP + fn_), fn_)
    # reorg handler: dispute first, then penalty; rejected either -> list; else InMempoolSince(height)
    ho = P.require(RSP + "handle_reorged_txs")
    sends = sites(ho, CARRIER + "send_transaction")
    kinds = []
    for bb in sends:
        s = og.show(arg_origin(ctx, ho, bb, 1))
        kinds.append("dispute" if "f:dispute_tx" in s else "penalty" if "f:penalty_tx" in s else "other")
        if not has_call(arg_origin(ctx, ho, bb, 1), "DBM::load_tracker"):
            rr.fail("ho:tx-origin", "handle_reorged_txs sends a transaction that is not a field of the stored tracker", where=ho.line_of(bb))
    if sorted(kinds) == ["dispute", "penalty"]:
        rr.ok("reorg handler re-announces dispute and penalty")
        d = sends[kinds.index("dispute")]
        p = sends[kinds.index("penalty")]
        if CARRIER + "send_transaction" in ctx.pf.called_before(ho).get(p, set()) and p in ho.reachable(d):
            rr.ok("dispute before penalty")
        else:
            rr.fail("ho:order", "the penalty is re-sent on a path that has not re-sent the dispute transaction first", where=ho.line_of(p))
        # the penalty follows unless the node REJECTED the dispute: every path from the dispute's re-send that skips the
        # penalty is a path on which the verdict can only be `Rejected` (given the variants send_transaction can build, the
        # variant tests on the path and the truth tables of the predicates tested on it)
        from .rulekit import enumerate_paths
        from .tables import enum_pred_table
        stc = P.bodies.get(CARRIER + "send_transaction")
        built = {x[2] for x in og.walk(ctx.og.local(stc, 0)) if isinstance(x, tuple) and x and x[0] == "agg" and x[1].endswith("ConfirmationStatus")} if stc else set()
        dterm = og.strip(ctx.og.operand(ho, {"m": ho.term(d)["dest"]}))
        bad = set()
        try:
            paths = enumerate_paths(ctx, ho, ho.succ(d), stop=lambda x: x == p or is_iter_next(ho, x), budget=40000)
        except RuntimeError:
            paths = None
        for path, facts, at_ret in paths or []:
            if path and path[-1] == p:
                continue
            poss = set(built)
            for ft in facts:
                subj = og.strip(ft[1])
                if ft[0] == "variant" and subj == dterm:
                    poss &= {ft[2]}
                elif ft[0] == "variant_in" and subj == dterm:
                    poss &= set(ft[2])
                elif ft[0] == "truth":
                    raw = ft[1]
                    pred = args_ = None
                    if isinstance(raw, tuple) and raw and raw[0] == "ret" and raw[1] in P.bodies:
                        pred, args_ = raw[1], raw[4]
                    elif isinstance(subj, tuple) and subj and subj[0] == "call" and subj[1] in P.bodies:
                        pred, args_ = subj[1], subj[2]
                    if pred and args_ and og.strip(args_[0]) == dterm:
                        tb = enum_pred_table(ctx, pred) or {}
                        poss &= {v_ for v_ in poss if tb.get(v_) in (ft[2], None)}
            bad |= poss - {"Rejected"}
        if paths is None:
            rr.fail("ho:paths", "too many paths in handle_reorged_txs to judge when the penalty is skipped", where=ho.span)
        elif built and not bad:
            rr.ok("penalty re-sent unless the dispute was Rejected (send_transaction can answer %s)" % sorted(built), sample={"rule": "OR2r", "skip-penalty paths": "only under Rejected", "buildable verdicts": sorted(built)})
        else:
            rr.fail("ho:penalty-skipped:%s" % ",".join(sorted(bad)) if bad else "ho:penalty-skipped:?", "after a reorg the penalty is not re-sent when the dispute's re-send answers %s (only a rejection justifies giving the tracker up): the tracker is dropped although the node refused nothing" % sorted(bad), where=ho.line_of(d))
        # the same for the penalty's own verdict: the tracker is queued for the no-refund delete only on paths where that verdict can
        # only be Rejected ("already in the chain" — IrrevocablyResolved — is not a refusal)
        pterm = og.strip(ctx.og.operand(ho, {"m": ho.term(p)["dest"]}))
        pushes_ = sites(ho, "std::vec::Vec::<T, A>::push")
        badp = set()
        try:
            ppaths = enumerate_paths(ctx, ho, ho.succ(p), stop=lambda x: x in pushes_ or is_iter_next(ho, x), budget=40000)
        except RuntimeError:
            ppaths = None
        for path, facts, at_ret in ppaths or []:
            if not (path and path[-1] in pushes_):
                continue
            badp |= _status_possible(ctx, facts, pterm, built) - {"Rejected"}
        if ppaths is None:
            rr.fail("ho:paths", "too many paths in handle_reorged_txs to judge when a tracker is given up", where=ho.span)
        elif built and not badp:
            rr.ok("reorged tracker given up only if the penalty's re-send was Rejected")
        else:
            rr.fail("ho:dropped-without-rejection:%s" % ",".join(sorted(badp)), "after a reorg the tracker is queued for deletion when the penalty's re-send answers %s: the node refused nothing (the penalty is already in the stronger chain), yet tracker and appointment are deleted without refund" % sorted(badp), where=ho.line_of(p))
    else:
        rr.fail("ho:sends:%s" % ",".join(sorted(kinds)), "handle_reorged_txs sends %s; expected the dispute and the penalty of each reorged tracker" % kinds, where=ho.span)
    if sites_containing(ho, "HashSet", "drain"):
        rr.ok("reorged set drained")
    else:
        rr.fail("ho:not-drained", "the reorged set is not drained: coming_from_reorg stays true forever", where=ho.span)
    for u in sites(ho, DBM + "update_tracker_status"):
        st = arg_origin(ctx, ho, u, 2)
        if st[0] == "agg" and st[2] == "InMempoolSince" and st[3][0][1] == ("param", ho.id, 2):
            rr.ok("reorged tracker -> InMempoolSince(height)")
        else:
            rr.fail("ho:status", "re-announced tracker status is `%s`" % og.show(st)[:100], where=ho.line_of(u))
    # disconnect
    bd = _must(ctx, rr, R_BD, [CARRIER + "update_height", TXI + "remove_disconnected_block", DBM + "load_trackers_with_confirmation_status"], "Responder::block_disconnected")
    for bb in sites(bd, DBM + "load_trackers_with_confirmation_status"):
        st = arg_origin(ctx, bd, bb, 1)
        if st[0] == "agg" and st[2] == "ConfirmedIn" and st[3][0][1] == ("param", bd.id, 3):
            rr.ok("disconnect marks trackers ConfirmedIn(disconnected height)")
        else:
            rr.fail("bd:status", "block_disconnected selects trackers with `%s`" % og.show(st)[:100], where=bd.line_of(bb))
    ex = [e for e in sites_containing(bd, "extend") if has_call(arg_origin(ctx, bd, e, 1), "load_trackers_with_confirmation_status")]
    if ex:
        rr.ok("disconnect extends the reorged set")
    else:
        rr.fail("bd:not-recorded", "trackers confirmed in the disconnected block are not added to the reorged set", where=bd.span)
    wd = _must(ctx, rr, W_BD, [TXI + "remove_disconnected_block"], "Watcher::block_disconnected")
    _atomic_store_of(ctx, rr, wd, "last_known_block_height", (3, 1), "Watcher::block_disconnected")
    _storable_statuses(ctx, rr)
    rr.require_floor(37, "OR2r instances")
    return rr


def _reject_or_update(ctx, rr, b, label):
    pushes = sites(b, "std::vec::Vec::<T, A>::push")
    ups = sites(b, DBM + "update_tracker_status")
    for p in pushes:
        if variant_fact(ctx, b, p, "Rejected", "Carrier::send_transaction"):
            rr.ok("%s: rejected -> list" % label)
        else:
            rr.fail("%s:push-unguarded" % label, "a tracker is queued for deletion without a Rejected verdict", where=b.line_of(p))
    for sw, succ in switch_succ_with(ctx, b, "variant", "Rejected", "Carrier::send_transaction"):
        if always_reaches(b, [succ], pushes, lambda x: is_iter_next(b, x)):
            rr.ok("%s: Rejected always queued" % label)
        else:
            rr.fail("%s:rejected-kept" % label, "a tracker whose re-submission was rejected is not queued for deletion", where=b.line_of(sw))
    if not pushes:
        rr.fail("%s:no-reject-list" % label, "no rejected list is built", where=b.span)
    # ... and a verdict other than Rejected is written back: the stored status is what the next block's passes select on
    for sw, succ in switch_succ_with(ctx, b, "variant", "Rejected", "Carrier::send_transaction"):
        if b.term(sw)["k"] != "switch":
            continue
        others = [s_ for s_ in b.succ(sw) if s_ != succ]
        if others and ups and always_reaches(b, others, ups, lambda x: is_iter_next(b, x)):
            rr.ok("%s: any other verdict -> update_tracker_status" % label)
        elif label == "rb":
            rr.fail("%s:status-not-persisted" % label, "a re-submitted tracker whose verdict is not Rejected can go to the next one without `update_tracker_status`: the database keeps `InMempoolSince(old height)`, so it is re-sent on every block from now on and its confirmation count is never restarted", where=b.line_of(sw))


def _storable_statuses(ctx, rr):
    """a tracker status that is written to the database is one the database can hold.  `ConfirmationStatus::to_db_data`
    answers None for the verdicts that are not states of a live tracker (IrrevocablyResolved, Rejected), DBM::update_tracker_status
    turns that into Err(MissingField), and every caller unwraps it holding the carrier and database locks on the chain thread.
    So at every store site the variants the status can still be -- what its producer can return, minus what the branches on the
    way excluded -- must all be storable."""
    P = ctx.prog
    tdd = P.bodies.get("teos::responder::ConfirmationStatus::to_db_data")
    st = P.bodies.get(CARRIER + "send_transaction")
    adt = P.adts.get("teos::responder::ConfirmationStatus")
    if tdd is None or st is None or not adt:
        rr.anchor_missing("ConfirmationStatus::to_db_data / Carrier::send_transaction")
        return
    allv = {v["name"] for v in adt["variants"]}
    storable = set()
    for bb in tdd.rpo():
        for s_ in tdd.blocks[bb]["s"]:
            if s_["k"] == "assign" and s_["d"] == [0] and s_["rv"].get("k") == "agg" and s_["rv"].get("variant") == "Some":
                for f in facts_at(ctx, tdd, bb):
                    if f[0] == "variant" and og.strip(f[1]) == ("param", tdd.id, 1):
                        storable.add(f[2])
    if not storable or storable == allv:
        rr.fail("status-table-undecided", "cannot tell which ConfirmationStatus variants `to_db_data` can store (found %s)" % sorted(storable), where=tdd.span)
        return
    rt = ctx.og.local(st, 0)
    produced = {x[2] for x in og.walk(rt) if isinstance(x, tuple) and len(x) >= 3 and x[0] == "agg" and str(x[1]).endswith("ConfirmationStatus")}
    if not produced:
        produced = set(allv)
    n = 0
    for bid, b in P.bodies.items():
        if not bid.startswith("teos::") or "::tests::" in bid:
            continue
        for u in sites(b, DBM + "update_tracker_status"):
            a = og.strip(arg_origin(ctx, b, u, 2))
            if isinstance(a, tuple) and a and a[0] == "agg" and str(a[1]).endswith("ConfirmationStatus"):
                possible = {a[2]}
            elif isinstance(a, tuple) and a and a[0] in ("call", "ret") and a[1] == CARRIER + "send_transaction":
                possible = set(produced)
                for f in facts_at(ctx, b, u):
                    if f[0] == "variant_in" and og.strip(f[1]) == a:
                        possible &= set(f[2])
                    elif f[0] == "variant" and og.strip(f[1]) == a:
                        possible &= {f[2]}
            else:
                possible = None
            n += 1
            if possible is not None and possible <= storable:
                rr.ok("%s: stored status in %s, all storable" % (shortfn(bid), sorted(possible)), sample={"rule": rr.rule, "site": shortfn(bid), "status can be": sorted(possible), "storable": sorted(storable)})
            elif possible is None:
                rr.fail("status-origin-unknown:%s" % shortfn(bid), "`%s` stores a tracker status `%s` whose possible variants cannot be determined" % (shortfn(bid), og.show(a)[:100]), where=b.line_of(u))
            else:
                rr.fail("status-not-storable:%s" % shortfn(bid), "`%s` hands `update_tracker_status` the verdict of `Carrier::send_transaction` on a path where it can still be %s: `to_db_data` has no row for that, the update answers Err(MissingField) and the `unwrap` aborts the chain thread holding the carrier and database locks (the node answers -27 'already in block chain' whenever it is a block ahead of the tower: two blocks in one poll, a backlog after downtime) — and the restart replays the same block" % (shortfn(bid), sorted(possible - storable)), where=b.line_of(u))
    if n < 3:
        rr.fail("status-store-sites=%d" % n, "expected at least 3 update_tracker_status sites in the tower")


def rule_OR2_gatekeeper(ctx, tier):
    rr = RuleResult("OR2g", "Gatekeeper purge: memory removal always followed by the cascading DB delete; heights maintained")
    P = ctx.prog
    f = P.require(G_FBC)
    _atomic_store_of(ctx, rr, f, "last_known_block_height", (4, 0), "Gatekeeper::fbc")
    rem = sites_containing(f, "HashMap", "::remove")
    brm = sites(f, DBM + "batch_remove_users")
    SEL = "outdated_users_in"  # the selection of outdated users (takes the locked map and the height)
    go = sites(f, GK + SEL)
    if not rem or not brm or not go:
        rr.fail("g:shape", "Gatekeeper::filtered_block_connected: missing %s / HashMap::remove / batch_remove_users (%d/%d/%d)" % (SEL, len(go), len(rem), len(brm)), where=f.span)
        return rr
    # the purge is not skipped when there is somebody to purge: from the selection, every path reaches the DB delete unless the
    # selection was found empty
    from .rulekit import reaches_unless
    if all(reaches_unless(ctx, f, f.succ(g_), brm, f.return_blocks(), lambda fs: any(x[0] == "truth" and x[2] is True and has_call(x[1], "is_empty") for x in fs)) for g_ in go):
        rr.ok("outdated users selected -> purged unless the selection is empty")
    else:
        rr.fail("g:purge-skipped", "Gatekeeper::filtered_block_connected can leave without purging although the selection of outdated users was not found empty: subscriptions past expiry + grace keep their users, appointments and trackers", where=f.line_of(go[0]))
    for r in rem:
        if always_reaches(f, f.succ(r), brm):
            rr.ok("memory removal -> batch_remove_users", sample={"rule": "OR2g", "after": "registered_users.remove(user)", "every path reaches": "DBM::batch_remove_users"})
        else:
            rr.fail("g:db-delete-skipped", "a user can be removed from memory on a path that never deletes it (and, by cascade, its appointments and trackers) from the database", where=f.line_of(r))
        a = arg_origin(ctx, f, r, 1)
        if not has_call(a, SEL):
            rr.fail("g:removes-other-users", "the user removed from memory (`%s`) is not drawn from the outdated-user selection" % og.show(a)[:100], where=f.line_of(r))
        else:
            rr.ok("removed users = outdated users")
    for bb in brm:
        a = arg_origin(ctx, f, bb, 1)
        if has_call(a, SEL):
            rr.ok("batch_remove_users(outdated users)")
        else:
            rr.fail("g:db-delete-arg", "batch_remove_users is fed `%s`" % og.show(a)[:100], where=f.line_of(bb))
    for bb in go:
        hts = [arg_origin(ctx, f, bb, i) for i in range(1, len(f.term(bb).get("args", [])))]
        if ("param", f.id, 4) in hts:
            rr.ok("outdated users selected at this block's height")
        else:
            rr.fail("g:outdated-height", "the outdated users are selected at `%s`, not at the connected block's height" % " / ".join(og.show(h)[:60] for h in hts), where=f.line_of(bb))
    d = P.require(G_BD)
    _atomic_store_of(ctx, rr, d, "last_known_block_height", (3, 1), "Gatekeeper::block_disconnected")
    # the in-memory user map starts as the exact image of the users table (and every later change goes to both): a user
    # dropped from memory only keeps its row, so its next registration hits the existing row (INSERT fails -> unwrap) and
    # its completed trackers find no owner to refund (unwrap on None) — both under the users and dbm locks
    gn = P.bodies.get(GK + "new")
    if gn is None:
        rr.anchor_missing(GK + "new")
    else:
        init = None
        for bb in gn.rpo():
            for s_ in gn.blocks[bb]["s"]:
                if s_["k"] == "assign" and s_["rv"]["k"] == "agg" and s_["rv"].get("adt", "").endswith("gatekeeper::Gatekeeper"):
                    init = dict(ctx.og._rvalue(gn, s_["rv"], 0, ())[3]).get("registered_users")
        mut = sorted({(call_target(t) or "").split("::")[-1] for bb, t in gn.calls() if "HashMap" in (call_target(t) or "") and (call_target(t) or "").split("::")[-1] in ("retain", "remove", "clear", "drain", "insert", "extract_if", "remove_entry")})
        for cid_ in P.family(gn.id):
            if cid_ != gn.id:
                mut += ["closure"] if any("HashMap" in (call_target(t) or "") for bb, t in P.bodies[cid_].calls()) else []
        direct = isinstance(init, tuple) and init and init[0] == "call" and init[1].endswith("Mutex::<T>::new") and init[2] and isinstance(init[2][0], tuple) and init[2][0] and init[2][0][0] in ("call", "ret") and init[2][0][1].endswith("DBM::load_all_users")
        if direct and not mut:
            rr.ok("Gatekeeper::new: registered_users = load_all_users(), untouched", sample={"rule": "OR2g", "registered_users": og.show(init)[:120]})
        else:
            rr.fail("mirror-init", "`Gatekeeper::new` does not start from the exact content of the users table (%s%s): users missing from memory keep their rows, and the code that relies on memory == table (INSERT of a 'new' user, refund of a tracker's owner) panics under the users and dbm locks" % (og.show(init)[:80] if init is not None else "no registered_users initialiser", (", then " + "/".join(mut)) if mut else ""), where=gn.span)
    rr.require_floor(7, "OR2g instances")
    return rr


# ------------------------------------------------------------------------------------------ OR3
def rule_OR3(ctx, tier):
    rr = RuleResult("OR3", "bootstrap catches up before serving; last-known-block is persisted only after a successful poll delivered the blocks")
    P = ctx.prog
    m = P.require(MAIN + "::{closure#0}")
    before = ctx.pf.called_before(m)
    spawns = sites(m, "tokio::spawn", "tokio::task::spawn")
    api = sites(m, "teos::api::internal::InternalAPI::new")
    if not spawns or not api:
        rr.anchor_missing("tokio::spawn / InternalAPI::new in teosd::main")
    for bb in spawns + api:
        if POLL in before.get(bb, set()):
            rr.ok("catch-up poll precedes %s" % shortfn(call_target(m.term(bb))), sample={"rule": "OR3", "before": call_target(m.term(bb)), "must have run": "ChainMonitor::poll_best_tip"})
        else:
            rr.fail("api-before-catch-up:%s" % shortfn(call_target(m.term(bb))), "`%s` is reached in main on a path that has not run the bootstrap poll_best_tip: requests would be served against stale chain state" % call_target(m.term(bb)), where=m.line_of(bb))
    # config first (C20): from_file -> patch -> verify precede DBM::new
    for bb in sites(m, DBM + "new"):
        need = {"teos::config::from_file", "teos::config::Config::patch_with_options", "teos::config::Config::verify"}
        missing = need - before.get(bb, set())
        if not missing:
            rr.ok("config verified before DB is opened")
        else:
            rr.fail("db-before-config:%s" % ",".join(sorted(shortfn(x) for x in missing)), "the database is opened before the configuration was %s" % sorted(missing), where=m.line_of(bb))
    # ... and everything that is derived from the network name (the per-network data directory, hence the database with the tower key,
    # users, appointments and trackers) is derived after Config::verify normalised it: `mainnet`/`main` and `testnet`/`test` are the same
    # network and must land in the same directory
    nn = 0
    for bb, t in m.calls():
        if (call_target(t) or "").split("::")[-1] in ("join", "push", "new", "from", "format") and any("f:btc_network" in og.show(arg_origin(ctx, m, bb, i)) for i in range(len(t["args"]))) \
                and any(x in (call_target(t) or "") for x in ("Path", "PathBuf")):
            nn += 1
            if "teos::config::Config::verify" in before.get(bb, set()):
                rr.ok("network directory derived from the verified (normalised) network name")
            else:
                rr.fail("db-before-config:network-dir", "main builds a path from `conf.btc_network` on a path where Config::verify has not run: verify rewrites `mainnet`/`testnet` to bitcoind's `main`/`test`, so the two accepted spellings of one network select two different databases — a restart under the other spelling starts a fresh tower (new key, nothing loaded)", where=m.line_of(bb))
    if nn == 0:
        rr.fail("db-before-config:no-network-dir", "cannot find where main derives the per-network directory from conf.btc_network", where=m.span)
    # who may persist the last known block
    callers = {c for c, bb in P.callers().get(DBM + "store_last_known_block", [])}
    poll_family = set(P.family(POLL))
    if callers and callers <= poll_family:
        rr.ok("only poll_best_tip persists the last known block")
    else:
        rr.fail("checkpoint-writers:%s" % ",".join(sorted(shortfn(c) for c in callers - poll_family)) , "DBM::store_last_known_block is called from %s; only ChainMonitor::poll_best_tip may (after the poll that delivered the block to all listeners)" % sorted(callers - poll_family))
    pb = P.async_body(POLL)
    ss = sites(pb, DBM + "store_last_known_block")
    if not ss:
        rr.fail("no-checkpoint", "poll_best_tip never persists the last known block", where=pb.span)
    for bb in ss:
        okv = variant_fact(ctx, pb, bb, "Ok", "SpvClient", "poll_best_tip")
        better = variant_fact(ctx, pb, bb, "Better", "SpvClient", "poll_best_tip")
        if okv and better:
            rr.ok("checkpoint only on Ok(Better(tip))")
        else:
            rr.fail("checkpoint-unguarded", "the last known block is persisted on a path where the SPV poll did not return Ok(ChainTip::Better(_)) (Ok=%s, Better=%s): a crash would skip blocks that were never delivered to the listeners" % (okv, better), where=pb.line_of(bb))
        a = arg_origin(ctx, pb, bb, 1)
        if has_call(a, "SpvClient", "poll_best_tip") and has_call(a, "block_hash"):
            # SpvClient::poll_best_tip answers Ok(Better(target)) whether the listeners were brought to `target`, part of the
            # way (a block download failed half way) or nowhere: the target tip is not what the listeners have processed
            rr.fail("checkpoint-ahead-of-listeners", "the block persisted as the tower's last known block is the TARGET tip returned by SpvClient::poll_best_tip, whatever part of the backlog was actually delivered to the listeners: after a failed block download followed by a restart, the blocks in between are never processed", where=pb.line_of(bb))
        elif has_call(a, "block_hash") or "header" in og.show(a):
            rr.ok("checkpoint derived from a header other than the poll's target tip", nontrivial=False)
        else:
            rr.fail("checkpoint-value", "the persisted hash is `%s`: not the hash of a block header" % og.show(a)[:120], where=pb.line_of(bb))
    for sw, succ in switch_succ_with(ctx, pb, "variant", "Better", "SpvClient", "poll_best_tip"):
        if always_reaches(pb, [succ], ss):
            rr.ok("Better(tip) -> persisted")
        else:
            rr.fail("checkpoint-skipped", "a better tip can be processed without being persisted: after a restart the same blocks are replayed forever / never", where=pb.line_of(sw))
    # key stability
    mk = sites(m, "teosd::create_new_tower_keypair")
    for bb in mk:
        fs = facts_at(ctx, m, bb)
        ow = [f for f in fs if f[0] == "truth" and "f:overwrite_key" in og.show(f[1])]
        nokey = variant_fact(ctx, m, bb, "None", "DBM::load_tower_key")
        if (ow and ow[0][2] is True) or (nokey and ow and ow[0][2] is False):
            rr.ok("new key only if overwrite_key or no stored key")
        else:
            rr.fail("key-regenerated", "a new tower key is generated although a key is stored and --overwritekey was not given", where=m.line_of(bb))
    if len(mk) != 2:
        rr.fail("key-sites=%d" % len(mk), "expected 2 create_new_tower_keypair sites in main", where=m.span)
    from .rulekit import generated_keys_persisted
    generated_keys_persisted(ctx, rr, ("teosd::",), DBM + "store_tower_key", "tower")
    # a tower that has a checkpoint boots from it: adopting the node's current best block ("fresh tower") is only for a
    # database without a last known block. Any other way into that branch (the header of the checkpoint could not be
    # fetched this once, ...) silently skips every block mined while the tower was down
    fresh = sites(m, "teosd::validate_best_block_header") or sites_containing(m, "validate_best_block_header")
    if not fresh:
        rr.anchor_missing("validate_best_block_header in teosd::main")
    for bb in fresh:
        if any(f[0] == "variant" and f[2] == "None" and subject_is_call(f[1], "DBM::load_last_known_block") for f in facts_at(ctx, m, bb)):
            rr.ok("the node's best block is adopted only when the database has no last known block")
        else:
            rr.fail("fresh-start-with-checkpoint", "teosd's main can adopt the node's current best block as its starting point on a path where `DBM::load_last_known_block` is not known to have answered None: a tower with a checkpoint that takes this path never sees the blocks mined while it was down, and their breaches go unanswered", where=m.line_of(bb))
    # after the bootstrap poll, main hands the chain over to the polling loop on every path that does not exit
    mcs = [x for x in ctx.pf.must_call().get(m.id, set()) if x.endswith("::monitor_chain")]
    if mcs:
        rr.ok("main always reaches ChainMonitor::monitor_chain")
    else:
        rr.fail("no-polling-loop", "teosd's main can run to its end without entering ChainMonitor::monitor_chain: after the bootstrap no block is ever polled again, the interfaces stay up and every breach is missed", where=m.span)
    rr.require_floor(10, "OR3 instances")
    # start-up reads of the TLS identity files: a file is read only if it was just written or found to exist on the same path
    # (key and certificate are written one after the other; a crash in between leaves the key without its certificate)
    tl = P.bodies.get("teos::tls::generate_or_load_identity")
    if tl is None:
        rr.anchor_missing("teos::tls::generate_or_load_identity")
    else:
        from .rulekit import enumerate_paths

        def file_id(term):
            for x in og.walk(term):
                if isinstance(x, tuple) and x and x[0] == "call" and x[1].endswith("Path::join") and len(x) > 3:
                    return x[3]
            return None
        reads = [(bb, file_id(arg_origin(ctx, tl, bb, 0))) for bb, t in tl.calls() if (call_target(t) or "").endswith("std::fs::read")]
        writes = {bb: file_id(arg_origin(ctx, tl, bb, 0)) for bb, t in tl.calls() if (call_target(t) or "").endswith("std::fs::write")}
        if len(reads) < 2 or len(writes) < 2:
            rr.anchor_missing("fs::read / fs::write sites in generate_or_load_identity")
        try:
            paths = enumerate_paths(ctx, tl, [0], stop=lambda x: x in [r for r, _ in reads][-1:], budget=200000)
        except RuntimeError:
            paths = []
            rr.fail("tls:paths", "too many paths in generate_or_load_identity", where=tl.span)
        for rb, fid in reads:
            bad = False
            for path, facts, at_ret in paths:
                if rb not in path:
                    continue
                pre = path[:path.index(rb)]
                written = any(w in pre and writes[w] == fid for w in writes)
                exists = any(ft[0] == "truth" and ft[2] is True and isinstance(ft[1], tuple) and any(isinstance(x, tuple) and x and x[0] == "call" and x[1].endswith("Path::exists") and file_id(x) == fid for x in og.walk(ft[1])) for ft in facts)
                if not (written or exists):
                    bad = True
                    break
            if fid is not None and not bad:
                rr.ok("tls: identity file read only after it was written or found to exist")
            else:
                rr.fail("tls:read-unchecked", "`generate_or_load_identity` reads an identity file on a path that neither wrote it nor found it to exist: after a crash between writing the key and its certificate every start fails with NotFound until the key is deleted by hand", where=tl.line_of(rb))
    return rr


# ------------------------------------------------------------------------------------------ EF1
def rule_EF1(ctx, tier):
    rr = RuleResult("EF1", "only the Carrier broadcasts, and only decrypted penalties of matched disputes or stored tracker transactions")
    P = ctx.prog
    senders = []
    for b in P.bodies.values():
        for bb, t in b.calls():
            if any("send_raw_transaction" in n or "sendrawtransaction" in n.lower() for n in call_names(t)):
                senders.append((b.id, bb, call_target(t)))
    ok_sender = CARRIER + "send_transaction"
    for bid, bb, tgt in senders:
        if bid == ok_sender:
            rr.ok("sendrawtransaction@Carrier::send_transaction")
        else:
            rr.fail("broadcast-outside-carrier:%s" % bid, "`%s` submits a raw transaction to the node (`%s`); only Carrier::send_transaction may" % (shortfn(bid), tgt), where=P.bodies[bid].line_of(bb))
    if not senders:
        rr.anchor_missing("RpcApi::send_raw_transaction call")
    # raw string RPC calls that could broadcast
    for b in P.bodies.values():
        if b.id.startswith("teos::bitcoin_cli::BitcoindClient::<'a>::send_raw_transaction"):
            callers = P.callers().get("teos::bitcoin_cli::BitcoindClient::<'a>::send_raw_transaction", [])
            if callers:
                rr.fail("bitcoin_cli-broadcast-used", "BitcoindClient::send_raw_transaction has callers %s" % callers)
            else:
                rr.ok("BitcoindClient::send_raw_transaction unused")
    n_sites = 0
    for b in P.bodies.values():
        for bb in sites(b, ok_sender):
            n_sites += 1
            a = arg_origin(ctx, b, bb, 1)
            key = "%s" % shortfn(b.id)
            if b.id == ok_sender:
                if a == ("param", b.id, 2):
                    rr.ok("retry re-sends the same tx")
                else:
                    rr.fail("retry-other-tx", "the transport-error retry in Carrier::send_transaction re-sends `%s`" % og.show(a), where=b.line_of(bb))
                continue
            if has_call(a, "DBM::load_tracker"):
                rr.ok("tx@%s = field of stored tracker" % key, sample={"rule": "EF1", "site": b.id, "tx origin": og.show(a)[:140]})
                continue
            if b.id == RSP + "handle_breach" and a[0] == "proj" and a[1] == ("param", b.id, 3) and a[2] == ("f:penalty_tx",):
                # resolve through every caller of handle_breach
                srcs = ctx.og.param_sources(b.id, 3)
                if not srcs:
                    rr.fail("handle_breach-no-callers", "handle_breach has no callers")
                for (cb, cbb), term in srcs:
                    cbody = P.bodies[cb]
                    bn = find_calls(term, "watcher::Breach::new")
                    good = False
                    if bn:
                        disp, pen = call_args(bn[0])[0], call_args(bn[0])[1]
                        dec = find_calls(pen, "cryptography::decrypt")
                        if dec and pen[0] == "proj" and pen[2][:2] == ("v:Ok", "f:0"):
                            keyt = call_args(dec[0])[1]
                            kc = find_calls(keyt, "Transaction::compute_txid")
                            if kc and og.strip(call_args(kc[0])[0]) == og.strip(disp):
                                good = True
                            # ... and it is decrypted for THIS breach: the decrypt call must-precedes the Breach::new site on
                            # every path since the loop iteration began (a penalty carried over from an earlier iteration /
                            # another appointment has the same origin term but skips the call)
                            site = bn[0][3] if len(bn[0]) > 3 else None
                            if good and site and site[0] in P.bodies:
                                sb = P.bodies[site[0]]
                                sbb = [x for x in sb.rpo() if sb.orig(x) == site[1] and sb.term(x)["k"] == "call"]
                                if not sbb or not all("teos_common::cryptography::decrypt" in ctx.pf.called_before(sb).get(x, set()) for x in sbb):
                                    good = False
                    if good:
                        rr.ok("breach@%s = (dispute, decrypt(blob, txid(dispute)))" % shortfn(cb), sample={"rule": "EF1", "caller": cb, "breach": og.show(term)[:200]})
                    else:
                        rr.fail("breach-origin:%s" % shortfn(cb), "`%s` hands the Responder a breach that is not (dispute_tx, Ok-payload of decrypt(blob, txid(dispute_tx))): `%s`" % (shortfn(cb), og.show(term)[:240]), where=cbody.line_of(cbb))
                continue
            rr.fail("tx-origin:%s" % key, "`%s` broadcasts `%s`, which is neither a decrypted penalty of a matched dispute nor a transaction of a stored tracker" % (shortfn(b.id), og.show(a)[:200]), where=b.line_of(bb))
    # the dispute transaction of a breach comes from the block / the cache, never from the request
    st = P.require(W + "store_triggered_appointment")
    for (cb, cbb), term in ctx.og.param_sources(st.id, 5):
        if has_call(term, "TxIndex", "get"):
            rr.ok("dispute_tx@store_triggered = locator cache hit")
        else:
            rr.fail("cached-dispute-origin", "store_triggered_appointment is given a dispute transaction that is not a locator-cache hit: `%s`" % og.show(term)[:160], where=P.bodies[cb].line_of(cbb))
    rr.require_floor(9, "EF1 instances")
    return rr


# ------------------------------------------------------------------------------------------ EF2
def rule_EF2(ctx, tier):
    rr = RuleResult("EF2", "slots are refunded exactly for trackers completed by check_confirmations")
    P = ctx.prog
    n = 0
    for b in P.bodies.values():
        for bb in sites(b, GK + "delete_appointments"):
            n += 1
            uu = arg_origin(ctx, b, bb, 1)
            fl = arg_origin(ctx, b, bb, 2)
            k = const_of(fl)
            if k is None or not isinstance(k[0], bool):
                rr.fail("refund-not-constant:%s" % shortfn(b.id), "the refund flag at this call is `%s`, not a constant" % og.show(fl), where=b.line_of(bb))
                continue
            completed = has_call(uu, "Responder::check_confirmations")
            if k[0] == completed:
                rr.ok("refund=%s@%s" % (k[0], shortfn(b.id)), sample={"rule": "EF2", "site": b.id, "refund": k[0], "uuids from": og.show(uu)[:120]})
            elif k[0]:
                rr.fail("refund-without-completion:%s" % shortfn(b.id), "appointments from `%s` are deleted WITH refund although they are not trackers completed by check_confirmations" % og.show(uu)[:120], where=b.line_of(bb))
            else:
                rr.fail("completion-without-refund:%s" % shortfn(b.id), "completed trackers are deleted without refunding their slots", where=b.line_of(bb))
    rr.require_floor(4, "delete_appointments call sites")
    return rr


# ------------------------------------------------------------------------------------------ EF3
def rule_EF3(ctx, tier):
    rr = RuleResult("EF3", "window sizes and thresholds are the constants the statements name (6-block cache, 100-block index, 2048-byte slots, 16-byte locator)")
    P = ctx.prog

    def cval(path, want):
        try:
            v = P.const_value(path)
        except Exception:
            rr.anchor_missing(path)
            return
        if v == want:
            rr.ok("%s == %s" % (path.split("::")[-1], want), nontrivial=False)
        else:
            rr.fail("const:%s=%s" % (path.split("::")[-1], v), "`%s` is %s, the documented value is %s" % (path, v, want))
    cval("teos_common::constants::IRREVOCABLY_RESOLVED", 100)
    cval("teos_common::constants::ENCRYPTED_BLOB_MAX_SIZE", 2048)
    cval("teos_common::USER_ID_LEN", 33)      # a compressed secp256k1 public key, the user id on the wire
    cval("teos_common::appointment::LOCATOR_LEN", 16)
    cval("teos::responder::CONFIRMATIONS_BEFORE_RETRY", 6)
    m = P.require(MAIN + "::{closure#0}")
    for bb in sites(m, "teos::watcher::Watcher::new"):
        a = arg_origin(ctx, m, bb, 2)
        s = og.show(a)
        rng = [t for t in og.walk(a) if isinstance(t, tuple) and t and t[0] == "agg" and t[1].endswith("ops::Range")]
        ok = False
        if rng and has_call(a, "get_last_n_blocks"):
            fields = dict(rng[0][3])
            st, en = const_of(fields.get("start")), const_of(fields.get("end"))
            ok = st and en and st[0] == 0 and en[0] == 6
        if ok:
            rr.ok("Watcher cache = last_n_blocks[0..6]", sample={"rule": "EF3", "Watcher::new(last_n_blocks)": s[:160]})
        else:
            rr.fail("watcher-cache-window", "the Watcher's locator cache is initialised with `%s`; the statement (and the late-appointment guarantee) is the 6 most recent blocks `last_n_blocks[0..6]`" % s[:200], where=m.line_of(bb))
    for bb in sites(m, "teos::responder::Responder::new"):
        a = arg_origin(ctx, m, bb, 0)
        if has_call(a, "get_last_n_blocks") and not [t for t in og.walk(a) if isinstance(t, tuple) and t and t[0] == "agg" and t[1].endswith("ops::Range")]:
            rr.ok("Responder index = all fetched blocks")
        else:
            rr.fail("responder-index-window", "the Responder's tx index is initialised with `%s`" % og.show(a)[:160], where=m.line_of(bb))
    for bb in sites(m, "teosd::get_last_n_blocks"):
        a = arg_origin(ctx, m, bb, 2)
        k = const_of(a)
        if k and k[1] == "teos_common::constants::IRREVOCABLY_RESOLVED":
            rr.ok("get_last_n_blocks(n = IRREVOCABLY_RESOLVED)")
        else:
            rr.fail("bootstrap-window", "bootstrap fetches `%s` blocks, not IRREVOCABLY_RESOLVED" % og.show(a), where=m.line_of(bb))
    # the newest block is element 0 of last_n_blocks (so [0..6] are the most recent six): get_last_n_blocks pushes tip first.
    # Every turn of its 0..n loop that does not fail pushes the block it fetched onto the vector it returns: the size of both
    # caches is the number of blocks handed over at start-up, for good.
    gl = None
    from .rulekit import is_iter_next as is_iter_next_
    # a call "fetches" if it is Poll::fetch_block or a (new, async) helper of the same crate that reaches it
    def _fetching(t_):
        tg_ = call_target(t_) or ""
        if "Poll" in tg_ and tg_.endswith("::fetch_block"):
            return True
        return tg_.startswith("teosd::") and tg_ in P.bodies and ctx.pf.reaches_call(tg_, lambda names: any(n.endswith("::fetch_block") for n in names))
    for bid in P.family("teosd::get_last_n_blocks") if "teosd::get_last_n_blocks" in P.bodies else []:
        if any(_fetching(t_) for _, t_ in P.bodies[bid].calls()) and any(is_iter_next_(P.bodies[bid], bb_) for bb_ in P.bodies[bid].rpo()):
            gl = P.bodies[bid]
    if gl is None:
        rr.anchor_missing("teosd::get_last_n_blocks")
    else:
        from .rulekit import is_iter_next, always_reaches
        nx = [bb for bb in gl.rpo() if is_iter_next(gl, bb) and "ops::Range" in (call_target(gl.term(bb)) or "")]
        fetches = [bb for bb, t in gl.calls() if _fetching(t)]
        fnames = {(call_target(gl.term(bb)) or "").split("::")[-1] for bb in fetches}
        pushes = [bb for bb, t in gl.calls() if (call_target(t) or "").endswith("Vec::<T, A>::push") and any(has_call(arg_origin(ctx, gl, bb, 1), n_) for n_ in fnames)]
        ret = og.show(ctx.og.local(gl, 0))
        same_vec = bool(pushes) and all(og.show(arg_origin(ctx, gl, p_, 0)) in ret for p_ in pushes)
        errs = {bb for bb, t in gl.calls() if (call_target(t) or "").endswith("::from_residual")}
        if len(nx) == 1 and fetches and pushes and same_vec and all(always_reaches(gl, gl.succ(f_), set(pushes) | errs, lambda x: x in nx) for f_ in fetches):
            rr.ok("get_last_n_blocks: every fetched block is pushed onto the returned vector before the next turn")
        else:
            rr.fail("bootstrap-blocks-dropped", "get_last_n_blocks can fetch a block and go to the next turn (or return) without pushing it onto the vector it returns: the Watcher's cache and the Responder's index are sized by the number of blocks handed over at start-up, so they start — and stay — shorter than 6 / 100 blocks", where=gl.line_of(fetches[0]) if fetches else gl.span)
        first = og.show(arg_origin(ctx, gl, fetches[0], 1)) if fetches else ""
        if "param#2@get_last_n_blocks" in first:
            rr.ok("get_last_n_blocks starts from the tip it is given (element 0 is the newest block)")
        else:
            rr.fail("bootstrap-order", "the first block fetched by get_last_n_blocks is `%s`, not the tip it was given" % first[:100], where=gl.span)
    n = 0
    for b in P.bodies.values():
        for bb in sites(b, "teos_common::appointment::compute_appointment_slots"):
            n += 1
            k = const_of(arg_origin(ctx, b, bb, 1))
            if k and k[1] == "teos_common::constants::ENCRYPTED_BLOB_MAX_SIZE":
                rr.ok("slots divisor@%s#%d" % (shortfn(b.id), n))
            else:
                rr.fail("slot-divisor:%s" % shortfn(b.id), "compute_appointment_slots is called with divisor `%s` instead of ENCRYPTED_BLOB_MAX_SIZE: charge and refund of the same blob would disagree" % og.show(arg_origin(ctx, b, bb, 1)), where=b.line_of(bb))
    if n < 3:
        rr.fail("floor:slot-sites", "only %d compute_appointment_slots call sites (3 confirmed)" % n)
    # Locator::new takes the first LOCATOR_LEN bytes
    ln = P.require("teos_common::appointment::Locator::new")
    rngs = []
    for i in ln.rpo():
        for s in ln.blocks[i]["s"]:
            if s["k"] == "assign" and s["rv"]["k"] == "agg" and s["rv"].get("adt", "").endswith(("ops::RangeTo", "ops::Range")):
                rngs.append(ctx.og._rvalue(ln, s["rv"], 0, ()))
    ok = False
    for r in rngs:
        f = dict(r[3])
        en = const_of(f.get("end"))
        st = const_of(f.get("start")) if "start" in f else (0, None)
        if en and en[1] == "teos_common::appointment::LOCATOR_LEN" and st and st[0] == 0:
            ok = True
    if ok:
        rr.ok("Locator::new = txid[..LOCATOR_LEN]")
    else:
        rr.fail("locator-prefix", "Locator::new does not take the first LOCATOR_LEN bytes of the txid", where=ln.span)
    rr.require_floor(11, "EF3 instances")
    return rr


# ------------------------------------------------------------------------------------------ CR
def rule_CR(ctx, tier):
    rr = RuleResult("CR", "node verdict table: accepted statuses only when the node took (or has) the transaction; receipts memoised")
    P = ctx.prog
    b = P.require(CARRIER + "send_transaction")

    def s32(v):
        return v - (1 << 32) if v >= (1 << 31) else v
    codes = {P.const_value("teos::rpc_errors::" + n): n for n in ("RPC_VERIFY_REJECTED", "RPC_VERIFY_ERROR", "RPC_VERIFY_ALREADY_IN_CHAIN", "RPC_DESERIALIZATION_ERROR")}
    want = {"RPC_VERIFY_REJECTED": "Rejected", "RPC_VERIFY_ERROR": "Rejected", "RPC_VERIFY_ALREADY_IN_CHAIN": "IrrevocablyResolved", "RPC_DESERIALIZATION_ERROR": "Rejected"}
    seen = {}
    n_status = 0
    for bb in b.rpo():
        for s in b.blocks[bb]["s"]:
            if s["k"] == "assign" and s["rv"]["k"] == "agg" and s["rv"].get("adt", "").endswith("ConfirmationStatus"):
                n_status += 1
                var = s["rv"]["variant"]
                fs = facts_at(ctx, b, bb)
                ok_arm = any(f[0] == "variant" and f[2] == "Ok" and has_call(f[1], "send_raw_transaction") for f in fs)
                err_arm = any(f[0] == "variant" and f[2] == "Err" and has_call(f[1], "send_raw_transaction") for f in fs)
                code = [s32(f[2]) for f in fs if f[0] == "eq" and has_call(f[1], "send_raw_transaction")]
                code_set = [tuple(s32(v) for v in f[2]) for f in fs if f[0] == "eq_in" and has_call(f[1], "send_raw_transaction")]
                if not code and code_set:
                    # one arm for several codes (`A | B => ..`): every code of the arm must want this verdict
                    names = [codes.get(v) for v in code_set[0]]
                    if var == "Rejected" and all(n and want.get(n) == "Rejected" for n in names) and not ok_arm:
                        rr.ok("%s -> Rejected" % "|".join(names))
                        for n in names:
                            seen[n] = var
                        continue
                    if var == "IrrevocablyResolved" or any(n is None or want.get(n) != var for n in names):
                        rr.fail("verdict-arm:%s" % "|".join(str(n) for n in names), "%s is reported for the codes %s" % (var, names), where=b.line_of(bb))
                        continue
                if var in ("InMempoolSince", "ConfirmedIn"):
                    if ok_arm and not err_arm:
                        h = og.show(ctx.og.operand(b, s["rv"]["ops"][0]))
                        if h.endswith("f:block_height"):
                            rr.ok("Ok(_) -> InMempoolSince(self.block_height)", sample={"rule": "CR", "arm": "sendrawtransaction Ok", "status": "InMempoolSince(block_height)"})
                        else:
                            rr.fail("accepted-height", "InMempoolSince is stamped with `%s`" % h[:60], where=b.line_of(bb))
                    else:
                        rr.fail("accepted-on-error:%s" % var, "Carrier::send_transaction reports %s (accepted) on a path where sendrawtransaction did not succeed: the tower would track / report a penalty the node does not have" % var, where=b.line_of(bb))
                elif var == "IrrevocablyResolved":
                    if code and codes.get(code[0]) == "RPC_VERIFY_ALREADY_IN_CHAIN":
                        rr.ok("RPC_VERIFY_ALREADY_IN_CHAIN -> IrrevocablyResolved")
                    else:
                        rr.fail("resolved-arm", "IrrevocablyResolved is reported for %s, not for RPC_VERIFY_ALREADY_IN_CHAIN" % (code or "a non-code arm"), where=b.line_of(bb))
                elif var == "Rejected":
                    if ok_arm:
                        rr.fail("rejected-on-ok", "Rejected is reported although sendrawtransaction succeeded", where=b.line_of(bb))
                    elif code:
                        nm = codes.get(code[0])
                        if nm and want.get(nm) == "Rejected":
                            rr.ok("%s -> Rejected" % nm)
                        else:
                            rr.fail("rejected-arm:%s" % (nm or code[0]), "Rejected is reported for code %s" % (nm or code[0]), where=b.line_of(bb))
                    else:
                        rr.ok("other errors -> Rejected", nontrivial=False)
                if code:
                    seen[codes.get(code[0], code[0])] = var
    for nm, v in want.items():
        if seen.get(nm) != v:
            rr.fail("verdict-table:%s" % nm, "node error %s is mapped to %s (documented: %s)" % (nm, seen.get(nm), v), where=b.span)
    if n_status < 4:
        rr.fail("floor:status-sites", "only %d ConfirmationStatus constructions in send_transaction" % n_status)
    # memo: early return of an issued receipt; insert before every normal return that computed a verdict
    ins = sites_containing(b, "HashMap", "::insert")
    gets = sites_containing(b, "HashMap", "::get")
    if ins and gets and all("f:issued_receipts" in og.show(arg_origin(ctx, b, x, 0)) for x in ins + gets):
        rr.ok("verdicts memoised in issued_receipts (looked up first, inserted before returning)")
        for r in b.return_blocks():
            fs = facts_at(ctx, b, r)
            early = any(f[0] == "variant" and f[2] == "Some" and has_call(f[1], "HashMap", "::get") for f in fs)
            if not early and not any(n.endswith("::insert") and "HashMap" in n for n in ctx.pf.called_before(b).get(r, set())):
                # return blocks merge; use reachability: a path entry->return avoiding insert and the Some arm?
                pass
    else:
        rr.fail("no-receipt-memo", "send_transaction does not memoise verdicts in issued_receipts", where=b.span)
    im = P.require(CARRIER + "in_mempool")
    trues = []
    for bb in im.rpo():
        for s in im.blocks[bb]["s"]:
            if s["k"] == "assign" and s["d"] == [0]:
                v = ctx.og._rvalue(im, s["rv"], 0, ())
                fs = facts_at(ctx, im, bb)
                ok_arm = any(f[0] == "variant" and f[2] == "Ok" and has_call(f[1], "get_raw_transaction_info") for f in fs)
                if v[0] == "const" and v[1] is False:
                    rr.ok("in_mempool: error arm -> false", nontrivial=False)
                elif ok_arm and has_call(v, "is_none") and "f:blockhash" in og.show(v):
                    rr.ok("in_mempool: Ok(tx) -> tx.blockhash.is_none()", sample={"rule": "CR", "in_mempool Ok arm": og.show(v)[:100]})
                else:
                    trues.append((bb, og.show(v)[:80]))
    for bb, v in trues:
        rr.fail("in-mempool-verdict", "Carrier::in_mempool answers `%s` on a path that is not (Ok(tx) && tx.blockhash.is_none()): a penalty the node does not hold in its mempool would be tracked as sent" % v, where=im.line_of(bb))
    rr.require_floor(8, "CR instances")
    # the verdict memo lives for one block only: clear_receipts leaves the map EMPTY (a kept verdict — "already in chain",
    # say — is replayed on a later reorg without asking the node again, and the dispute is not re-sent with its penalty)
    cl = P.require(CARRIER + "clear_receipts")
    wipes = [bb for bb in cl.rpo() for s_ in cl.blocks[bb]["s"] if s_["k"] == "assign" and len(s_["d"]) > 1 and s_["d"][-1] == "f:issued_receipts" and has_call(ctx.og._rvalue(cl, s_["rv"], 0, ()), "HashMap", "new")]
    wipes += [bb for bb, t_ in cl.calls() if (call_target(t_) or "").endswith("HashMap::<K, V, S, A>::clear") and "f:issued_receipts" in og.show(arg_origin(ctx, cl, bb, 0))]
    partial = [call_target(t_) for bb, t_ in cl.calls() if "f:issued_receipts" in og.show(arg_origin(ctx, cl, bb, 0)) and (call_target(t_) or "").split("::")[-1] in ("retain", "remove", "remove_entry", "extract_if", "drain", "insert")]
    from .rulekit import reach_without_edges
    skip_ok = set(switch_succ_with(ctx, cl, "truth", True, "is_empty"))  # nothing to wipe when it is empty already
    leak = any(reach_without_edges(cl, 0, r_, skip_ok | {(w, s_) for w in wipes for s_ in cl.succ(w)}, stop=lambda q: q in wipes) for r_ in cl.return_blocks())
    if wipes and not partial and not leak:
        rr.ok("clear_receipts empties the verdict memo on every path (unless already empty)", sample={"rule": "CR", "clear_receipts": "issued_receipts = HashMap::new() | clear()"})
    else:
        rr.fail("receipts-not-cleared", "`Carrier::clear_receipts` does not leave the verdict memo empty (%s): a verdict issued for one block is replayed for later blocks and reorgs without asking the node" % ("uses " + ", ".join(sorted(shortfn(x) for x in partial)) if partial else "no wipe on some path"), where=cl.span)
    return rr


# ------------------------------------------------------------------------------------------ TX
def rule_TX(ctx, tier):
    rr = RuleResult("TX", "bounded index mutators keep their three structures in step (structure only: every mutator touches map, queue and per-block keys)")
    P = ctx.prog
    T = "teos::tx_index::TxIndex::<K, V>::"

    def recv_sites(b, frag1, frag2, field):
        return [x for x in sites_containing(b, frag1, frag2) if ("f:" + field) in og.show(arg_origin(ctx, b, x, 0))]
    u = P.require(T + "update")
    fam = [P.bodies[x] for x in P.family(u.id)]
    pb = recv_sites(u, "VecDeque", "::push_back", "blocks")
    tib = recv_sites(u, "HashMap", "::insert", "tx_in_block")
    idx = [x for fb in fam for x in recv_sites(fb, "HashMap", "::insert", "index")]
    ro = sites(u, T + "remove_oldest_block")
    mc = ctx.pf.must_call()[u.id]
    for name, ss in (("blocks.push_back", pb), ("tx_in_block.insert", tib), ("index.insert", idx)):
        if ss:
            rr.ok("update: %s" % name)
        else:
            rr.fail("update:missing:%s" % name, "TxIndex::update no longer performs `%s`: the three structures drift apart" % name, where=u.span)
    for x in pb + tib:
        if not always_reaches(u, [0], [x]):
            rr.fail("update:conditional:%d" % x, "TxIndex::update updates a structure only on some paths", where=u.line_of(x))
    for x in tib:
        k = og.show(arg_origin(ctx, u, x, 1))
        if "block_hash" in k and "param#2" in k:
            rr.ok("update: per-block keys stored under this block's hash")
        else:
            rr.fail("update:key", "tx_in_block is keyed by `%s`" % k[:80], where=u.line_of(x))
    if ro and all(truth_fact(ctx, u, x, "is_full") is True for x in ro):
        ok = all(always_reaches(u, [succ], ro) for sw, succ in switch_succ_with(ctx, u, "truth", True, "is_full"))
        if ok:
            rr.ok("update: evict the oldest block iff the index is over its size", sample={"rule": "TX", "update": "push; insert; if is_full() { tip += 1; remove_oldest_block() }"})
        else:
            rr.fail("update:no-evict", "a full index is not always evicted", where=u.span)
    else:
        rr.fail("update:evict-gate", "remove_oldest_block is not gated by is_full()", where=u.span)
    tipw = [bb for bb in u.rpo() for s in u.blocks[bb]["s"] if s["k"] == "assign" and s["d"][-1] == "f:tip"]
    if tipw and all(truth_fact(ctx, u, x, "is_full") is True for x in tipw):
        rr.ok("update: tip advances only when a block is evicted")
    else:
        rr.fail("update:tip", "TxIndex.tip is written outside the eviction branch (or never)", where=u.span)
    # `tip` moves only with an eviction: no other TxIndex method may write it (the height of an entry is derived from it)
    for bid, tb in P.bodies.items():
        if not bid.startswith("teos::tx_index::TxIndex::<K, V>::") or bid in (u.id, T + "new") or tb.kind != "method":
            continue
        tw = [bb for bb in tb.rpo() for s_ in tb.blocks[bb]["s"] if s_["k"] == "assign" and len(s_["d"]) > 1 and s_["d"][-1] == "f:tip"]
        if tw and bid.endswith("::remove_disconnected_block") and all(variant_fact(ctx, tb, x, "None", "HashMap", "::remove") for x in tw):
            # the one other legitimate move: a block disconnected BELOW the window (the index does not hold it) takes the
            # window down with it; how far is rule TH's business
            rr.ok("remove_disconnected_block moves tip only for a block the index does not hold")
            continue
        if tw:
            rr.fail("tip-written:%s" % shortfn(bid), "`%s` writes TxIndex.tip; only the eviction in `update` — and a disconnection of a block the index does not hold — may move it (update does not re-advance it while the index refills after a disconnect, so any other adjustment makes every later height permanently wrong)" % shortfn(bid), where=tb.line_of(tw[0]))
    rr.ok("tip written only by update (eviction) and new")
    f = P.require(T + "is_full")
    ret = ctx.og.local(f, 0)
    from .rulekit import rel_of_term
    if any(op == "Gt" and "len" in og.show(l) and "f:blocks" in og.show(l) and og.show(r).endswith("f:size") for op, l, r in rel_of_term(ret)):
        rr.ok("is_full = blocks.len() > size")
    else:
        rr.fail("is_full-shape", "is_full is `%s`" % og.show(ret)[:80], where=f.span)
    d = P.require(T + "remove_disconnected_block")
    rm = recv_sites(d, "HashMap", "::remove", "tx_in_block")
    ret_ = recv_sites(d, "HashMap", "::retain", "index")
    pop = recv_sites(d, "VecDeque", "::pop_back", "blocks")
    if rm and all(arg_origin(ctx, d, x, 1) == ("param", d.id, 2) for x in rm):
        rr.ok("disconnect: keys of the disconnected block looked up by its hash")
    else:
        rr.fail("disconnect:lookup", "remove_disconnected_block does not remove the disconnected block's key list", where=d.span)
    for sw, succ in switch_succ_with(ctx, d, "variant", "Some", "HashMap", "remove"):
        for name, ss in (("index.retain", ret_), ("blocks.pop_back", pop)):
            if ss and always_reaches(d, [succ], ss):
                rr.ok("disconnect: %s" % name)
            else:
                rr.fail("disconnect:missing:%s" % name, "remove_disconnected_block does not always perform `%s` for a known block: entries of a disconnected block stay visible / the queue keeps the block" % name, where=d.span)
    # the retain closure keeps exactly the keys not in the removed list
    for cid in P.children(d.id):
        cb = P.bodies[cid]
        r0 = ctx.og.local(cb, 0)
        s0 = og.show(r0)
        if s0.startswith("Not(") and "contains" in s0:
            rr.ok("disconnect: retain(|k| !removed.contains(k))")
        else:
            rr.fail("disconnect:retain-predicate", "the index is filtered with `%s`" % s0[:80], where=cb.span)
    o = P.require(T + "remove_oldest_block")
    for name, ss in (("blocks.pop_front", recv_sites(o, "VecDeque", "::pop_front", "blocks")), ("tx_in_block.remove", recv_sites(o, "HashMap", "::remove", "tx_in_block")), ("index.retain", recv_sites(o, "HashMap", "::retain", "index"))):
        if ss and always_reaches(o, [0], ss):
            rr.ok("evict: %s" % name)
        else:
            rr.fail("evict:missing:%s" % name, "remove_oldest_block does not perform `%s`" % name, where=o.span)
    g = P.require(T + "get")
    gs = recv_sites(g, "HashMap", "::get", "index")
    if gs and arg_origin(ctx, g, gs[0], 1) == ("param", g.id, 2):
        rr.ok("get reads the map with the given key")
    else:
        rr.fail("get-shape", "TxIndex::get does not look the key up in the map", where=g.span)
    n = P.require(T + "new")
    if sites_containing(n, "Iterator", "::rev") or sites_containing(n, "::rev"):
        rr.ok("new: blocks inserted oldest first (input is newest first)")
    else:
        rr.fail("new:order", "TxIndex::new does not reverse the newest-first block list: the queue would evict the newest blocks", where=n.span)
    szw = [s for bb in n.rpo() for s in n.blocks[bb]["s"] if s["k"] == "assign" and s["rv"]["k"] == "agg" and s["rv"].get("adt", "").endswith("TxIndex")]
    okz = False
    for s in szw:
        t = ctx.og._rvalue(n, s["rv"], 0, ())
        fz = dict(t[3])
        if "len" in og.show(fz.get("size")) and "param#1" in og.show(fz.get("size")) and fz.get("tip") == ("param", n.id, 2):
            okz = True
    if okz:
        rr.ok("new: size = number of blocks given, tip = given height")
    else:
        rr.fail("new:size", "TxIndex::new does not take its size from the block slice / tip from the height", where=n.span)
    rr.require_floor(18, "TX instances")
    return rr


def rule_OR3_config(ctx, tier):
    """the start-up clauses of OR3 that concern the configuration (claimed under C20): the others are C03's"""
    rr = rule_OR3(ctx, tier)
    keep = ("db-before-config", "key-", "anchor-missing", "floor:", "api-before-catch-up")
    rr.findings = [f for f in rr.findings if f.key.startswith(keep)]
    rr.rule = "OR3c"
    for f in rr.findings:
        f.rule = "OR3c"
    rr.title = "start-up: configuration verified before the database is opened; tower key regenerated only on request"
    return rr
