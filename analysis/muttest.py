"""python3 -m analysis.muttest [jsonl] : author-side; runs the repository's own test suite on the mutants the sweep
left SILENT, in a scratch worktree outside /repo and /verif (removed afterwards), to tell "killed by the tests anyway"
from "survives the tests".  Adds "tests": "pass"/"fail"/"nocompile" to each record (rewrites the jsonl)."""
import json, os, re, subprocess, sys
from analysis.mutsweep import rel_sites, const_sites, logic_sites, arith_sites, stmt_sites
VERIF = os.path.dirname(os.path.dirname(os.path.abspath(__file__)))
WT, TG = "/tmp/mutwt", "/tmp/mutwt_target"
def main():
    path = sys.argv[1] if len(sys.argv) > 1 else os.path.join(VERIF, ".cache", "mutsweep.jsonl")
    recs = []
    seen = {}
    for l in open(path):
        r = json.loads(l)
        k = (r["file"], r["line"], r["old"], r["new"], r["src"])
        if k in seen:
            if "tests" in seen[k] and "tests" not in r:
                r["tests"] = seen[k]["tests"]
            recs[recs.index(seen[k])] = r
        else:
            recs.append(r)
        seen[k] = r
    if not os.path.isdir(WT):
        subprocess.check_call(["git", "-C", "/repo", "worktree", "add", "--detach", WT, "HEAD"])
    env = dict(os.environ, CARGO_TARGET_DIR=TG, CARGO_NET_OFFLINE="true")
    for r in recs:
        if r["verdict"] != "SILENT" or "tests" in r or r.get("triage"):
            continue
        p = os.path.join(WT, r["file"])
        t = open(p).read()
        sites = []
        for f in (rel_sites, const_sites, logic_sites, arith_sites, stmt_sites):
            sites += [s for s in f(t) if s[4] == r["line"] and s[2] == r["old"] and s[3] == r["new"] and s[5] == r["src"]]
        if not sites:
            r["tests"] = "site-not-found"; continue
        a, b = sites[0][0], sites[0][1]
        open(p, "w").write(t[:a] + r["new"] + t[b:])
        try:
            # own process group: on a timeout the test binary a mutant sent into an endless loop is killed too, not only cargo
            import os as _os, signal as _signal
            pr = subprocess.Popen(["nice", "-n", "10", "cargo", "test", "--offline", "--workspace", "--", "--test-threads", "4"], cwd=WT, env=env, stdout=subprocess.PIPE, stderr=subprocess.STDOUT, text=True, start_new_session=True)
            try:
                out, _ = pr.communicate(timeout=1500)
            except subprocess.TimeoutExpired:
                _os.killpg(pr.pid, _signal.SIGKILL)
                pr.communicate()
                raise
            x = pr
            if "error[" in out or "could not compile" in out:
                r["tests"] = "nocompile"
            elif x.returncode == 0:
                r["tests"] = "pass"
            else:
                r["tests"] = "fail"
                r["failed"] = re.findall(r"^test (\S+) \.\.\. FAILED", out, re.M)[:5]
        except subprocess.TimeoutExpired:
            r["tests"] = "timeout"
        open(p, "w").write(t)
        print(r["tests"], r["file"], r["line"], r["old"], "->", r["new"], r.get("failed", ""), flush=True)
        with open(path, "w") as fh:
            for q in recs:
                fh.write(json.dumps(q) + "\n")
    subprocess.call(["git", "-C", "/repo", "worktree", "remove", "--force", WT])
main()
