"""TH: the height reported for a block of the bounded index equals its chain height in every reachable state.

Counter abstraction of `TxIndex`, read off the MIR:  T = tip, L = blocks.len(), S = size, and the ghost F = chain
height of blocks.front().  Every mutator path is summarised as a constant effect vector (dT, dL, dF) — push_back:
dL+1, pop_back: dL-1, pop_front: dL-1 and dF+1, `tip = tip ± c`: dT±c — by walking the acyclic CFG with the
branch facts of the path.  `get_height`'s result is linearised into  aT*T + aL*L + aS*S + aP*pos + c.  The block at
queue position `pos` has chain height F + pos (blocks are consecutive: connect appends the successor of the tip,
disconnect removes the tip), so the report is right in every reachable state iff

    g(T, L, S, F) = aT*T + aL*L + aS*S + c - F  is 0 on the affine hull of the reachable states, and aP = 1.

The hull is  init + span{effect vectors}  (Karr's affine-equality domain with translations only), init being the
post-state of `new`: T = height of the last block given, L = S, F = T - S + 1.  So the check is a handful of dot
products: g = 0 on init (aT = 1, aL + aS = -1, c = 1) and dg = aT*dT + aL*dL - dF = 0 for every mutator path.
Guards are ignored (every path effect is assumed applicable anywhere), except the two path classes that the data
structure itself rules out or that lie outside the property's window; both are named in the evidence.
"""
from fractions import Fraction
from .facts import call_names, call_target
from .framework import RuleResult
from . import origin as og
from .rulekit import arg_origin, shortfn, sites

T_ = "teos::tx_index::TxIndex::<K, V>::"
QUEUE_OPS = {"push_back": (1, 0), "pop_back": (-1, 0), "pop_front": (-1, 1)}
QUEUE_UNKNOWN = ("push_front", "clear", "truncate", "drain", "retain", "retain_mut", "append", "split_off", "remove", "insert", "swap_remove_back", "swap_remove_front", "resize", "resize_with", "extend", "rotate_left", "rotate_right")
# who may drive the index, and what each call means for the chain
DRIVERS = {"update": "one block connected on top of the indexed tip", "remove_disconnected_block": "the tip block disconnected"}


class _Bad(Exception):
    pass


def _linear(term, self_param):
    """origin term -> {atom: coeff} over atoms T, L, S, P, 1 ; raises _Bad on anything else"""
    if not isinstance(term, tuple) or not term:
        raise _Bad("opaque operand %r" % (term,))
    k = term[0]
    if k == "const" and isinstance(term[1], int) and not isinstance(term[1], bool):
        return {"1": Fraction(term[1])}
    if k == "cast":
        return _linear(term[1], self_param)
    if k == "proj":
        base, path = term[1], tuple(term[2])
        if base == self_param and path in (("f:tip",), ("*", "f:tip")):
            return {"T": Fraction(1)}
        if base == self_param and path in (("f:size",), ("*", "f:size")):
            return {"S": Fraction(1)}
        if path == ("f:0",) and isinstance(base, tuple) and base and base[0] == "bin" and base[1].endswith("WithOverflow"):
            return _linear(("bin", base[1][:-len("WithOverflow")], base[2], base[3]), self_param)
        if isinstance(base, tuple) and base and base[0] in ("call", "ret") and base[1].endswith("::position") and "f:blocks" in og.show(base):
            return {"P": Fraction(1)}
        raise _Bad("projection %s" % og.show(term)[:60])
    if k in ("call", "ret"):
        if term[1].endswith("::len") and "f:blocks" in og.show(term) and "VecDeque" in term[1]:
            return {"L": Fraction(1)}
        if term[1].split("::")[-1] in ("saturating_sub", "saturating_add", "wrapping_sub", "wrapping_add", "checked_sub", "checked_add"):
            raise _Bad("non-affine arithmetic `%s`" % term[1].split("::")[-1])
        raise _Bad("call %s" % shortfn(term[1]))
    if k == "bin" and term[1] in ("Add", "Sub", "AddUnchecked", "SubUnchecked"):
        a, b = _linear(term[2], self_param), _linear(term[3], self_param)
        sgn = 1 if term[1].startswith("Add") else -1
        out = dict(a)
        for key, v in b.items():
            out[key] = out.get(key, 0) + sgn * v
        return out
    raise _Bad("term %s" % og.show(term)[:60])


def _fmt(lin):
    names = {"T": "tip", "L": "blocks.len()", "S": "size", "P": "pos", "1": "1"}
    parts = []
    for k in ("T", "P", "1", "L", "S"):
        v = lin.get(k, 0)
        if v:
            parts.append("%s%s%s" % ("+" if v > 0 else "-", "" if abs(v) == 1 or k == "1" else str(abs(v)) + "*", names[k] if k != "1" else str(abs(v))))
    return " ".join(parts).lstrip("+") or "0"


def _paths(ctx, P, body, memo, depth=0):
    """[(dT, dL, dF, labels(tuple))] for every acyclic normal path entry->return of a TxIndex method"""
    if body.id in memo:
        return memo[body.id]
    if depth > 4:
        raise _Bad("mutator nesting too deep at %s" % shortfn(body.id))
    self_param = ("param", body.id, 1)
    # per block: effect of its statements and terminator
    blk = {}
    for bb in body.rpo():
        eff = [(0, 0, 0, ())]
        for s in body.blocks[bb]["s"]:
            if s["k"] != "assign":
                continue
            d = s["d"]
            if len(d) > 1 and d[-1] == "f:tip":
                try:
                    rvt = og.strip(ctx.og._rvalue(body, s["rv"], 0, ()))
                    # a step of `tip` that saturates (tip.saturating_sub(1)) is a constant step wherever heights mean anything
                    if isinstance(rvt, tuple) and rvt and rvt[0] == "call" and rvt[1].split("::")[-1] in ("saturating_sub", "saturating_add") and len(rvt[2]) == 2:
                        rvt = ("bin", "Sub" if rvt[1].endswith("sub") else "Add", rvt[2][0], rvt[2][1])
                    lin = _linear(rvt, self_param)
                except _Bad as e:
                    raise _Bad("`tip` is assigned a value that is not tip ± constant in %s (%s)" % (shortfn(body.id), e))
                if lin.get("T", 0) != 1 or any(lin.get(k, 0) for k in ("L", "S", "P")):
                    raise _Bad("`tip` is assigned `%s` in %s: not a constant step" % (_fmt(lin), shortfn(body.id)))
                eff = [(a + int(lin.get("1", 0)), b, c, l) for a, b, c, l in eff]
            elif len(d) > 1 and d[-1] in ("f:blocks", "f:size"):
                raise _Bad("`%s` is replaced wholesale in %s" % (d[-1][2:], shortfn(body.id)))
        t = body.term(bb)
        if t["k"] == "call":
            tgt = call_target(t) or ""
            last = tgt.split("::")[-1]
            if "VecDeque" in tgt and t.get("args") and "f:blocks" in og.show(arg_origin(ctx, body, bb, 0)):
                if last in QUEUE_OPS:
                    dl, df = QUEUE_OPS[last]
                    eff = [(a, b + dl, c + df, l + (last,)) for a, b, c, l in eff]
                elif last in QUEUE_UNKNOWN:
                    raise _Bad("the block queue is changed with `%s` in %s: no constant effect known for it" % (last, shortfn(body.id)))
            elif tgt.startswith(T_) and tgt in P.bodies and tgt != body.id and P.bodies[tgt].kind == "method":
                sub = _paths(ctx, P, P.bodies[tgt], memo, depth + 1)
                vecs = sorted({(a, b, c) for a, b, c, _ in sub})
                if vecs != [(0, 0, 0)]:
                    eff = [(a + x, b + y, c + z, l + (last,)) for a, b, c, l in eff for x, y, z in vecs]
        blk[bb] = eff
    # closures of the method must not touch the queue or tip
    for cid in P.children(body.id):
        cb = P.bodies[cid]
        for bb2, t2 in cb.calls():
            if "VecDeque" in (call_target(t2) or "") and (call_target(t2) or "").split("::")[-1] in tuple(QUEUE_OPS) + QUEUE_UNKNOWN:
                raise _Bad("a closure of %s changes a VecDeque" % shortfn(body.id))
    out = []
    budget = [20000]

    def dfs(bb, acc, labels, onpath):
        budget[0] -= 1
        if budget[0] < 0:
            raise _Bad("too many paths in %s" % shortfn(body.id))
        for a, b, c, l in blk[bb]:
            acc2 = (acc[0] + a, acc[1] + b, acc[2] + c)
            lab2 = labels + l
            t = body.term(bb)
            if t["k"] == "return":
                out.append(acc2 + (lab2,))
                continue
            sf = ctx.pf.switch_facts(body, bb) if t["k"] == "switch" else {}
            for s in body.succ(bb):
                if s in onpath:
                    continue  # effect-free loop (effectful ones were rejected above)
                extra = ()
                for f in sf.get(s, ()):
                    if f[0] == "variant" and f[2] in ("None", "Some"):
                        sh = og.show(f[1])
                        if "f:tx_in_block" in sh and "::remove" in sh:
                            extra += ("tx_in_block.remove=" + f[2],)
                        elif "f:blocks" in sh and "pop_back" in sh:
                            extra += ("pop_back=" + f[2],)
                        elif "f:blocks" in sh and "pop_front" in sh:
                            extra += ("pop_front=" + f[2],)
                    if f[0] == "truth" and any(c.endswith("::is_full") for c in og.calls_in(f[1])):
                        extra += ("is_full=%s" % f[2],)
                    elif f[0] == "truth" and any(c.endswith("::is_empty") and "VecDeque" in c for c in og.calls_in(f[1])) and "f:blocks" in og.show(f[1]):
                        extra += ("blocks.is_empty=%s" % f[2],)
                    elif f[0] == "truth":
                        from .rulekit import rel_of_term
                        for op_, l_, r_ in rel_of_term(f[1], f[2]):
                            if "f:blocks" in og.show(l_) and "len" in og.show(l_) and og.show(r_).endswith("f:size"):
                                extra += ("is_full=%s" % (op_ == "Gt"),) if op_ in ("Gt", "Le") else ()
                dfs(s, acc2, lab2 + extra, onpath | {bb})
    # loops with effects are rejected up front (effect would not be a constant vector)
    order = body.rpo()
    index = {b: i for i, b in enumerate(order)}
    for bb in order:
        for s in body.succ(bb):
            if index.get(s, 0) <= index[bb]:
                # back edge bb -> s : any effectful block between s and bb?
                loop = {x for x in order if index[s] <= index[x] <= index[bb]}
                if any(v[:3] != (0, 0, 0) for x in loop for v in blk[x]):
                    raise _Bad("%s changes the queue or tip inside a loop" % shortfn(body.id))
    dfs(0, (0, 0, 0), (), frozenset())
    res = {}
    for a, b, c, l in out:
        key = (a, b, c, tuple(sorted(set(x for x in l if "=" in x))))
        res.setdefault(key, l)
    memo[body.id] = [k[:3] + (k[3],) for k in res]
    return memo[body.id]


def desc_labels(labels):
    return ", ".join(labels) or "no condition"


def rule_TH(ctx, tier):
    rr = RuleResult("TH", "the height reported by TxIndex::get_height equals the block's chain height in every reachable state (affine effect summaries + invariant hull)")
    P = ctx.prog
    g = P.bodies.get(T_ + "get_height")
    if g is None:
        rr.anchor_missing(T_ + "get_height")
        return rr
    # ---- the formula
    ret = ctx.og.local(g, 0)
    somes = [x for x in og.walk(ret) if isinstance(x, tuple) and x and x[0] == "agg" and x[1].endswith("Option") and x[2] == "Some"]
    if len(somes) != 1:
        rr.fail("height-formula:shape", "get_height builds %d `Some(..)` results; expected one formula" % len(somes), where=g.span)
        return rr
    try:
        lin = _linear(dict(somes[0][3])["0"], ("param", g.id, 1))
    except _Bad as e:
        rr.fail("height-formula:not-affine", "get_height's result is not an affine expression of tip, blocks.len(), size and the queue position (%s): cannot be related to the chain height" % e, where=g.span)
        return rr
    aT, aL, aS, aP, c = (lin.get(k, Fraction(0)) for k in ("T", "L", "S", "P", "1"))
    formula = _fmt(lin)
    rr.ok("get_height = %s" % formula, sample={"rule": "TH", "formula": formula, "truth": "height(front) + pos"})
    pos_ok = any(isinstance(x, tuple) and x and x[0] in ("call", "ret") and x[1].endswith("::position") for x in og.walk(ret)) and \
        any(isinstance(x, tuple) and x and x[0] in ("call", "ret") and x[1].endswith("VecDeque::<T, A>::iter") for x in og.walk(ret))
    if aP == 1 and pos_ok:
        rr.ok("pos is the position from the front of the queue, coefficient 1")
    else:
        rr.fail("height-formula:pos", "the queue position enters get_height with coefficient %s (or is not counted from the front)" % aP, where=g.span)
    # the block looked up is the one asked for: the predicate handed to `position` is equality with the parameter
    preds = []
    for x in og.walk(ret):
        if isinstance(x, tuple) and x and x[0] in ("call", "ret") and x[1].endswith("::position") and x[0] == "call" and len(x[2]) >= 2:
            preds.append(x[2][1])
    pred_ok = False
    for pr in preds:
        if isinstance(pr, tuple) and pr and pr[0] == "closure" and pr[1] in P.bodies:
            cb = P.bodies[pr[1]]
            cret = og.strip(ctx.og.local(cb, 0))
            if isinstance(cret, tuple) and cret and cret[0] == "call" and cret[1].endswith("::eq") and "PartialEq" in cret[1] and len(cret[2]) == 2:
                sides = {og.show(og.strip(a)) for a in cret[2]}
                if sides == {"param#2@%s" % shortfn(cb.id).split("::")[-1], "param#2@get_height"}:
                    pred_ok = True
    if pred_ok:
        rr.ok("the position searched is that of the block hash passed in (closure is `x == block_hash`)")
    else:
        rr.fail("height-formula:lookup", "get_height does not look up the position of the block hash it was given (the `position` predicate is not equality between the queue element and the parameter)", where=g.span)
    # ---- init: post-state of new (T = given height, L = S): g = (aT-1)*b + (aL+aS+1)*s + (c-1) must vanish for all b, s
    if aT == 1 and aL + aS == -1 and c == 1:
        rr.ok("right after bootstrap (tip = height of the newest block, blocks.len() = size): formula gives height(front)+pos")
    else:
        rr.fail("height-formula:bootstrap", "with a full index (len = size, tip = height of the newest block) `%s` is not height(front)+pos = tip - size + 1 + pos" % formula, where=g.span)
    # ---- drivers: who calls the mutators, and only them
    memo = {}
    mutators = {}
    for bid, b in P.bodies.items():
        if not bid.startswith(T_) or b.kind != "method" or bid.count("::{closure") or bid.endswith("::new"):
            continue
        try:
            ps = _paths(ctx, P, b, memo)
        except _Bad as e:
            rr.fail("effect-not-constant:%s" % shortfn(bid), "%s" % e, where=b.span)
            continue
        if any(v[:3] != (0, 0, 0) for v in ps):
            mutators[bid] = ps
    external = {}
    for bid, b in P.bodies.items():
        if bid.startswith("teos::tx_index::") or "::tests::" in bid or "test_utils" in bid:
            continue
        for bb, t in b.calls():
            tg = call_target(t) or ""
            if tg in mutators:
                external.setdefault(tg, []).append((bid, bb))
    for m in mutators:
        name = m.split("::")[-1]
        if name in DRIVERS:
            callers = sorted({shortfn(x) for x, _ in external.get(m, [])})
            want = "filtered_block_connected" if name == "update" else "block_disconnected"
            if callers and all(want in x for x in callers):
                rr.ok("%s is driven only by %s (%s)" % (name, want, DRIVERS[name]))
                # ... exactly once per event, on every path: a connect / disconnect the index does not see leaves every later
                # answer about stale blocks (and, for a skipped disconnect, every later height) wrong
                mc = ctx.pf.must_call()
                for cb_id in sorted({x for x, _ in external.get(m, [])}):
                    cb_ = P.bodies[cb_id]
                    n_sites = len([1 for x, _ in external[m] if x == cb_id])
                    in_loop = any(bb2 in cb_.reachable(s2) for x, bb2 in external[m] if x == cb_id for s2 in cb_.succ(bb2))
                    if m in mc.get(cb_id, set()) and n_sites == 1 and not in_loop:
                        rr.ok("%s calls %s exactly once on every path" % (shortfn(cb_id), name))
                    else:
                        rr.fail("driver-not-once:%s:%s" % (name, shortfn(cb_id)), "`%s` does not call `TxIndex::%s` exactly once on every path (sites %d, on every path: %s, in a loop: %s): a block event the index does not see leaves entries of disconnected blocks visible / shifts every later height" % (
                            shortfn(cb_id), name, n_sites, m in mc.get(cb_id, set()), in_loop), where=cb_.span)
            else:
                rr.fail("driver:%s" % name, "`%s` is called from %s: the chain meaning of the call (%s) is only known for the Listen callbacks" % (name, callers, DRIVERS[name]), where=P.bodies[m].span)
        elif m in external:
            rr.fail("driver:%s" % name, "queue/tip mutator `%s` is called from outside tx_index (%s): no chain meaning is known for it" % (name, sorted({shortfn(x) for x, _ in external[m]})), where=P.bodies[m].span)
    # ---- every mutator path keeps g = 0
    n_paths = 0
    for m, ps in sorted(mutators.items()):
        name = m.split("::")[-1]
        if name not in DRIVERS:
            continue
        for dT, dL, dF, labels in ps:
            n_paths += 1
            lab = ", ".join(labels) or "-"
            if name == "remove_disconnected_block" and "tx_in_block.remove=None" in labels:
                # a disconnected block the index does not hold. Blocks are disconnected tip first, so the queue is empty
                # and the chain is being rewound BELOW the window: the window moves down with it — the block that will be
                # connected next, and sit at the front, is one lower than before — so `tip` has to follow. Otherwise every
                # height reported after a reorg deeper than the index is too high by the excess depth, for good.
                if "blocks.is_empty=False" in labels:
                    rr.ok("%s [%s]: infeasible — blocks are disconnected tip first, an unknown block with a non-empty queue cannot occur" % (name, lab), nontrivial=False)
                    continue
                dg = aT * dT + aL * dL + 1
                desc = "%s [%s]: Δtip=%+d Δlen=%+d Δheight(next front)=-1" % (name, lab, dT, dL)
                if dg == 0:
                    rr.ok(desc + " keeps reported = true height", sample={"rule": "TH", "path": desc, "delta of (reported - true)": 0})
                else:
                    rr.fail("height-drift:remove_disconnected_block:below-window", "a block disconnected while the index is empty (a reorg deeper than its %s blocks) leaves `tip` where it was: every height `get_height` (= %s) reports from then on is too high by the number of such blocks (%s); the Responder stores it as ConfirmedIn(h) and `current_height - h` underflows at the next block" % ("N", formula, desc), where=P.bodies[m].span)
                continue
            if ("tx_in_block.remove=Some" in labels and "pop_back=None" in labels) or "pop_front=None" in labels:
                rr.ok("%s [%s]: infeasible — queue and per-block map hold the same blocks (rule TX)" % (name, lab), nontrivial=False)
                continue
            if name == "update" and dF > 0 and "is_full=True" not in labels:
                rr.fail("update:evicts-when-not-over-size", "`TxIndex::update` drops the oldest block on a path where the queue is not known to be over its size (%s): after a disconnection the window never refills — it stays short by the depth of every reorg, so recent blocks fall out of the look-up early" % desc_labels(labels), where=P.bodies[m].span)
                continue
            if name == "update" and dF == 0 and dL > 0 and "is_full=True" in labels:
                rr.fail("update:keeps-when-over-size", "`TxIndex::update` keeps every block on a path where the queue is over its size", where=P.bodies[m].span)
                continue
            dg = aT * dT + aL * dL - dF
            desc = "%s [%s]: Δtip=%+d Δlen=%+d Δheight(front)=%+d" % (name, lab, dT, dL, dF)
            if dg == 0:
                rr.ok(desc + " keeps reported = true height", sample={"rule": "TH", "path": desc, "delta of (reported - true)": 0})
            else:
                what = {"update": "a block connected while the index is not full (refill after a disconnect)", "remove_disconnected_block": "a disconnected tip block"}[name]
                rr.fail("height-drift:%s:%s" % (name, ("evict" if dF else "no-evict") if name == "update" else "known-block"),
                        "after %s every height reported by `get_height` (= %s) moves by %+d relative to the block's chain height (%s); the Responder turns it into ConfirmedIn(h) and counts confirmations from it" % (what, formula, dg, desc), where=P.bodies[m].span)
    if n_paths < 3:
        rr.fail("floor:mutator-paths", "only %d effectful driver paths found (expected update evict / update refill / disconnect)" % n_paths)
    return rr

