"""python3 -m analysis.trypatch <patch.diff> <P1> [P2 ...]|all : apply patch to a scratch copy of /repo, run checks, print findings"""
import os, shutil, subprocess, sys
VERIF = os.path.dirname(os.path.dirname(os.path.abspath(__file__)))
def main():
    patch = os.path.abspath(sys.argv[1]); props = sys.argv[2:] or ["all"]
    sc = os.path.join(VERIF, ".cache", "scratch", "try_%d" % os.getpid())
    shutil.rmtree(sc, ignore_errors=True); os.makedirs(sc)
    repo = os.path.join(sc, "repo")
    subprocess.check_call(["rsync", "-a", "--exclude", "target", "--exclude", ".git", "/repo/", repo + "/"])
    r = subprocess.run(["patch", "-p1", "-s", "-d", repo, "-i", patch])
    if r.returncode: print("PATCH FAILED"); return 1
    env = dict(os.environ, TEOS_REPO=repo, VERIF_FACTS_CACHE=os.path.join(sc, "facts"), VERIF_OUT_DIR=os.path.join(sc, "out"))
    for p in props:
        r = subprocess.run([os.path.join(VERIF, "check"), p], cwd=VERIF, env=env, stdout=subprocess.PIPE, stderr=subprocess.STDOUT, text=True)
        for l in r.stdout.splitlines():
            if l.startswith(("[C", "  [", "fact extraction")) and "violations=0" not in l: print(l[:400])
        if "fact extraction failed" in r.stdout: print(r.stdout[-1500:])
    shutil.rmtree(sc, ignore_errors=True)
main()
