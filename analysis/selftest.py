"""Self-test corpus: seeded variants of /repo that must make a named rule fire (and compile).

Each case lives in /verif/seeded/<id>/ (patch.diff + meta.json).  meta.json:
  {"breaks": ["C10"], "expect": [{"property": "C10", "rule": "AT1", "key": "span-broken"}], ...}
The runner copies /repo's working tree to a scratch directory under /verif/.cache, applies the patch,
re-extracts the facts from the patched sources and runs the registered check; the case passes when every
expected (property, rule, key-substring) is reported as a VIOLATION.  Scratch copies are removed afterwards.

  python3 -m analysis.selftest [--property C10] [--keep] [case ...]
"""
import json
import os
import shutil
import subprocess
import sys
import time

VERIF = os.path.dirname(os.path.dirname(os.path.abspath(__file__)))
REPO = os.environ.get("TEOS_REPO", "/repo")
SCRATCH = os.path.join(VERIF, ".cache", "scratch")
DIRS = [os.path.join(VERIF, "seeded"), os.path.join(VERIF, "selftest"), os.path.join(VERIF, "benign")]


def cases():
    out = {}
    for d in DIRS:
        if not os.path.isdir(d):
            continue
        for name in sorted(os.listdir(d)):
            p = os.path.join(d, name)
            if os.path.exists(os.path.join(p, "patch.diff")) and os.path.exists(os.path.join(p, "meta.json")):
                with open(os.path.join(p, "meta.json")) as fh:
                    meta = json.load(fh)
                out[name] = (p, meta)
    return out


def run_case(name, path, meta, keep=False, only_property=None):
    t0 = time.time()
    sc = os.path.join(SCRATCH, name)
    shutil.rmtree(sc, ignore_errors=True)
    os.makedirs(sc)
    repo = os.path.join(sc, "repo")
    subprocess.check_call(["rsync", "-a", "--exclude", "target", "--exclude", ".git", REPO + "/", repo + "/"])
    r = subprocess.run(["patch", "-p1", "-s", "-d", repo, "-i", os.path.join(path, "patch.diff")], stdout=subprocess.PIPE, stderr=subprocess.STDOUT, text=True)
    if r.returncode != 0:
        if not keep:
            shutil.rmtree(sc, ignore_errors=True)
        return {"case": name, "ok": False, "reason": "patch does not apply to the current tree: " + r.stdout[-300:], "seconds": round(time.time() - t0, 1)}
    # facts of a variant are kept across runs (keyed by the patch; extract.py still checks the source digest of the patched
    # copy, so a change of /repo or of the patch re-extracts): the thorough tiers of different properties share them
    import hashlib
    with open(os.path.join(path, "patch.diff"), "rb") as fh:
        vkey = hashlib.sha1(fh.read()).hexdigest()[:16]
    vfacts = os.path.join(VERIF, ".cache", "vfacts", vkey)
    os.makedirs(os.path.dirname(vfacts), exist_ok=True)
    env = dict(os.environ, TEOS_REPO=repo, VERIF_FACTS_CACHE=vfacts, VERIF_OUT_DIR=os.path.join(sc, "out"))
    if meta.get("expect_silent"):
        props = [only_property] if only_property else ["all"]
        res = {"case": name, "ok": True, "missed": [], "hit": [], "props": props}
        for p in props:
            r = subprocess.run([os.path.join(VERIF, "check"), p, "--tier", "quick"], cwd=VERIF, env=env, stdout=subprocess.PIPE, stderr=subprocess.STDOUT, text=True)
            if "fact extraction failed" in r.stdout:
                res["ok"] = False
                res["reason"] = "benign variant does not compile: " + r.stdout[-300:]
            alarms = [l for l in r.stdout.splitlines() if l.startswith("  [")]
            if alarms or r.returncode != 0:
                res["ok"] = False
                res["missed"] = ["FALSE ALARM: " + a[:160] for a in alarms[:6]]
            else:
                res["hit"].append("%s silent" % p)
        res["seconds"] = round(time.time() - t0, 1)
        if not keep:
            shutil.rmtree(sc, ignore_errors=True)
        return res
    expects = [e for e in meta.get("expect", []) if only_property in (None, e["property"])]
    props = sorted({e["property"] for e in expects})
    res = {"case": name, "ok": True, "missed": [], "hit": [], "props": props}
    for p in props:
        r = subprocess.run([os.path.join(VERIF, "check"), p, "--tier", "quick"], cwd=VERIF, env=env, stdout=subprocess.PIPE, stderr=subprocess.STDOUT, text=True)
        out = r.stdout
        if "fact extraction failed" in out or "does not type-check" in out:
            res["ok"] = False
            res["reason"] = "variant does not compile under the driver: " + out[-400:]
            break
        lines = [l for l in out.splitlines() if l.startswith("  [")]
        for e in [x for x in expects if x["property"] == p]:
            hit = [l for l in lines if l.startswith("  [%s]" % e["rule"]) and e["key"] in l]
            if hit and r.returncode == 1:
                res["hit"].append("%s/%s/%s" % (p, e["rule"], e["key"]))
            else:
                res["ok"] = False
                res["missed"].append("%s/%s/%s" % (p, e["rule"], e["key"]))
    res["seconds"] = round(time.time() - t0, 1)
    if not keep:
        shutil.rmtree(sc, ignore_errors=True)
    return res


def run(only_property=None, names=None, keep=False):
    allc = cases()
    todo = []
    for name, (path, meta) in allc.items():
        if names and name not in names:
            continue
        if only_property and not meta.get("expect_silent") and not any(e["property"] == only_property for e in meta.get("expect", [])):
            continue
        todo.append((name, path, meta))
    # cases are independent scratch copies; fact extraction is serialised by extract.py's lock, the analysis runs in parallel
    from concurrent.futures import ThreadPoolExecutor
    jobs = max(1, int(os.environ.get("VERIF_JOBS", "0") or 0) or min(8, os.cpu_count() or 1))
    with ThreadPoolExecutor(max_workers=jobs) as ex:
        results = list(ex.map(lambda c: run_case(c[0], c[1], c[2], keep, only_property), todo))
    return results


if __name__ == "__main__":
    args = sys.argv[1:]
    prop = None
    keep = "--keep" in args
    if "--property" in args:
        prop = args[args.index("--property") + 1]
    names = [a for a in args if not a.startswith("--") and a != prop]
    rs = run(prop, names or None, keep)
    bad = 0
    for r in rs:
        print("%-40s %s  %ss  hit=%s%s" % (r["case"], ("SILENT" if "silent" in str(r.get("hit")) else "DETECTED") if r["ok"] else ("FALSE-ALARM" if "FALSE ALARM" in str(r.get("missed")) else "MISSED"), r["seconds"], r.get("hit"), ("  missed=%s %s" % (r.get("missed"), r.get("reason", ""))) if not r["ok"] else ""))
        bad += 0 if r["ok"] else 1
    print("%d cases, %d missed" % (len(rs), bad))
    sys.exit(1 if bad else 0)
