"""E5 (part): SQL literal inventory of the two DBM modules and a tiny tokenizer for the statements they use."""
import re


def norm(s):
    return re.sub(r"\s+", " ", s).strip()


def parse_create(stmt):
    """CREATE TABLE IF NOT EXISTS t ( ... ) -> dict(table, columns[], pk[], fks[(cols, ref_table, ref_cols, on_delete)], autoincrement)"""
    s = norm(stmt)
    m = re.match(r"CREATE TABLE IF NOT EXISTS (\w+) \((.*)\)$", s, re.I)
    if not m:
        return None
    table, body = m.group(1), m.group(2)
    # split on top-level commas
    parts, depth, cur = [], 0, ""
    for ch in body:
        if ch == "(":
            depth += 1
        elif ch == ")":
            depth -= 1
        if ch == "," and depth == 0:
            parts.append(cur.strip())
            cur = ""
        else:
            cur += ch
    if cur.strip():
        parts.append(cur.strip())
    cols, pk, fks, auto = [], [], [], False
    for p in parts:
        # a part may contain several FOREIGN KEY clauses without separating commas
        fk_iter = list(re.finditer(r"FOREIGN KEY ?\(([^)]*)\) REFERENCES (\w+) ?\(([^)]*)\)( ON DELETE (\w+))?", p, re.I))
        if p.upper().startswith("PRIMARY KEY"):
            pk = [c.strip() for c in re.search(r"\(([^)]*)\)", p).group(1).split(",")]
            for fm in fk_iter:
                fks.append(([c.strip() for c in fm.group(1).split(",")], fm.group(2), [c.strip() for c in fm.group(3).split(",")], (fm.group(5) or "").upper()))
            continue
        if p.upper().startswith("FOREIGN KEY"):
            for fm in fk_iter:
                fks.append(([c.strip() for c in fm.group(1).split(",")], fm.group(2), [c.strip() for c in fm.group(3).split(",")], (fm.group(5) or "").upper()))
            continue
        name = p.split()[0]
        cols.append(name)
        if "PRIMARY KEY" in p.upper():
            pk = [name]
        if "AUTOINCREMENT" in p.upper():
            auto = True
    return {"table": table, "columns": cols, "pk": pk, "fks": fks, "autoincrement": auto}


def classify(stmt):
    """-> dict(kind, table, columns, upsert) for INSERT / UPDATE / DELETE / SELECT / PRAGMA / CREATE"""
    s = norm(stmt)
    u = s.upper()
    if u.startswith("INSERT"):
        m = re.match(r"INSERT( OR REPLACE)? INTO (\w+) ?\(([^)]*)\)", s, re.I)
        if not m:
            return {"kind": "insert", "table": None, "columns": [], "upsert": False}
        return {"kind": "insert", "table": m.group(2), "columns": [c.strip() for c in m.group(3).split(",")],
                "upsert": bool(m.group(1)) or "ON CONFLICT" in u}
    if u.startswith("UPDATE"):
        m = re.match(r"UPDATE (\w+) SET (.*?)( WHERE (.*))?$", s, re.I)
        cols = [c.split("=")[0].strip() for c in m.group(2).split(",")] if m else []
        return {"kind": "update", "table": m.group(1) if m else None, "columns": cols, "where": (m.group(4) or "") if m else ""}
    if u.startswith("DELETE"):
        m = re.match(r"DELETE FROM (\w+)", s, re.I)
        return {"kind": "delete", "table": m.group(1) if m else None}
    if u.startswith("SELECT"):
        return {"kind": "select"}
    if u.startswith("PRAGMA"):
        return {"kind": "pragma", "text": s}
    if u.startswith("CREATE TABLE"):
        return {"kind": "create"}
    if u.startswith("CREATE INDEX"):
        return {"kind": "index"}
    return {"kind": "other"}


CTX = None  # set by context.Ctx: lets body_sql resolve the constant arguments of a format template


def _fill_template(body, bb, raw):
    """`format!("SELECT .. FROM {table} ..")` with constant arguments (a helper that was handed the table name and got
    inlined): the template's placeholders are replaced by the constants when every one of them is a string constant"""
    n = raw.count("\ufffd")
    t = body.term(bb)
    if not n or CTX is None or t.get("k") != "call" or not str(t.get("callee", "")).endswith("Arguments::<'a>::new"):
        return raw
    from . import origin as og
    from .rulekit import arg_origin, const_of
    try:
        args = arg_origin(CTX, body, bb, 1)
    except Exception:
        return raw
    consts = []
    for x in og.walk(args):
        if isinstance(x, tuple) and x and x[0] == "call" and "Argument" in x[1] and x[1].split("::")[-1].startswith("new_display") and len(x[2]) == 1:
            c = const_of(og.strip(x[2][0]))
            consts.append(c[0] if c and isinstance(c[0], str) else None)
    if len(consts) != n or any(c is None for c in consts):
        return raw
    out, i = "", 0
    for ch in raw:
        if ch == "\ufffd":
            out += " " + consts[i] + " "
            i += 1
        else:
            out += ch
    return out


def body_sql(body):
    """SQL string literals appearing in a body (in block order)"""
    out = []
    for bb in body.rpo():
        bl = body.blocks[bb]

        def walk(o):
            if isinstance(o, dict):
                for key in ("str", "bytes"):
                    if key not in o or not isinstance(o[key], str):
                        continue
                    raw = o[key]
                    if key == "bytes" and "\ufffd" in raw:
                        raw = _fill_template(body, bb, raw)
                    st = norm("".join(ch if ch.isprintable() else " " for ch in raw))
                    if key == "bytes":
                        st = norm(re.sub(r"^[^A-Za-z]*", "", st))
                    if re.match(r"(INSERT|UPDATE|DELETE|SELECT|PRAGMA|CREATE) ", st, re.I):
                        out.append((bb, st))
                for v in o.values():
                    walk(v)
            elif isinstance(o, list):
                for v in o:
                    walk(v)
        walk(bl)
    return out


def select_shape(stmt):
    """tokenised shape of a SELECT: (tables, join kind, where columns, uses IS NULL anti-join)"""
    s = norm(stmt)
    tables = sorted(set(t.lower() for t in re.findall(r"(?:FROM|JOIN)\s+(\w+)", s, re.I)))
    left = bool(re.search(r"LEFT\s+JOIN", s, re.I))
    m = re.search(r"\bWHERE\b(.*)$", s, re.I)
    where = m.group(1) if m else ""
    # strip sub-selects' own keywords but keep their column names
    cols = sorted(set(c.lower() for c in re.findall(r"(?:\b\w+\.)?(\w+)\s*(?:=|<=|>=|<|>|\bIN\b|\bIS\b)", where, re.I)))
    anti = bool(re.search(r"IS\s+NULL", where, re.I))
    return {"tables": tables, "left_join": left, "where": cols, "anti_join": anti}
