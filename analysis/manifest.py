"""Generates /verif/MANIFEST.json from the property registry (python3 -m analysis.manifest)."""
import json
import os

from . import properties as PR

VERIF = os.path.dirname(os.path.dirname(os.path.abspath(__file__)))


def build():
    checks = []
    for pid in sorted(PR.REGISTRY):
        spec = PR.REGISTRY[pid]
        checks.append({
            "property_id": pid,
            "quick_cmd": "./check %s --tier quick" % pid,
            "thorough_cmd": "./check %s --tier thorough" % pid,
            "evidence_file": "/verif/evidence/%s.json" % pid,
            "replay_cmd_template": "./check %s --tier quick   # deterministic static check; the finding is in {path}" % pid,
            "engine": "teos-facts (rustc_private MIR extractor) + analysis/*.py",
            "level_claimed": {
                "category": "other",
                "text": spec["explanation"] + " Rule functions evaluated for this property (catalogue: DESIGN.md §3, §10.1, §13): " + ", ".join(getattr(r, "__name__", "?").replace("rule_", "") for r in spec["rules"]) + ".",
                "design_ref": "DESIGN.md §4 (%s), §3 for the rules" % pid,
            },
            "level_note": "Trusted base: rustc 1.97-nightly MIR construction and trait resolution; the fact extractor; callback summaries, thread roots, lock-class and classification tables in /verif/analysis (each confirmed by reading, floors fail closed). "
                          "Assumes anchored item paths are stable (a rename fails the rule closed) and that futures are awaited where created.",
            "technique": "static analysis: " + spec["technique"],
        })
    m = {
        "version": 1,
        "setup_cmd": "python3 analysis/extract.py",
        "hooks": {
            "guard": "teos_verif",
            "enable": "none: nothing in /repo is executed or instrumented; checks read the MIR of /repo's working tree through a rustc_private driver (cargo 1.81 + nightly rustc as RUSTC + RUSTC_WORKSPACE_WRAPPER)",
            "baseline_off_cmd": "cd /repo && cargo test --workspace --no-fail-fast --offline",
            "source_commits": [],
            "add_only": True,
        },
        "engines": [
            {"name": "teos-facts", "path": "driver/", "serves_properties": sorted(PR.REGISTRY), "kind_free_text": "rustc_private driver: dumps mir_built bodies, resolved callees, ADTs, constants, SQL/format literals per workspace crate"},
            {"name": "analysis", "path": "analysis/", "serves_properties": sorted(PR.REGISTRY), "kind_free_text": "Python (stdlib): call graph, lock engine, origin tracer, path facts, table extraction, rule modules, known-findings handling"},
        ],
        "checks": checks,
        "not_applicable": [{"property_id": p, "reason": r} for p, r in PR.NOT_APPLICABLE],
        "notes": "All checks are static (no test, no execution of /repo). `./check all` runs every claimed property. Known genuine defects are listed in known_findings.json and reported as KNOWN-FINDING lines.",
    }
    return m


if __name__ == "__main__":
    m = build()
    with open(os.path.join(VERIF, "MANIFEST.json"), "w") as fh:
        json.dump(m, fh, indent=1)
    print("MANIFEST.json written: %d checks, %d not applicable" % (len(m["checks"]), len(m["not_applicable"])))
