"""python3 -m analysis.mutreport : writes sweep/mutation_sweep.md from the sweep result files under .cache (author-side)."""
import json, os, glob
from collections import Counter
VERIF = os.path.dirname(os.path.dirname(os.path.abspath(__file__)))
TRIAGE = os.path.join(VERIF, "analysis", "mutation_triage.json")


def main():
    from .mutation_triage import reason
    out = ["# Mutation sweep (author-side, not a registered check)", "",
           "One mutant at a time of the non-test part of the anchored files; verdict of the quick tier of all 20 properties",
           "(frozen copy of the checker at the time of the sweep), and for the silent ones the verdict of the repository's own test",
           "suite. Rules added since then are listed in DESIGN §10.1; the variants under `selftest/m_*` replay the ones that were",
           "turned into clauses. `NOCOMPILE` mutants (trait bounds, type positions) are not counted.", ""]
    allrows = []
    for path, label in (("mutsweep.jsonl", "relational operator flipped"), ("mutsweep_logic.jsonl", "&&/|| swapped, negation dropped"),
                        ("mutsweep_arith.jsonl", "+/- swapped"), ("mutsweep_stmt.jsonl", "expression statement deleted"), ("mutsweep_const.jsonl", "integer literal + 1")):
        p = os.path.join(VERIF, ".cache", path)
        if not os.path.exists(p):
            continue
        d = {}
        for l in open(p):
            r = json.loads(l)
            k = (r["file"], r["line"], r["old"], r["new"], r["src"])
            if k in d and "tests" in d[k] and "tests" not in r:
                r["tests"] = d[k]["tests"]   # the suite's verdict on a mutant does not depend on the checker's version
            d[k] = r
        rows = [r for r in d.values() if r["verdict"] != "NOCOMPILE"]
        c = Counter(r["verdict"] for r in rows)
        silent = [r for r in rows if r["verdict"] == "SILENT"]
        t = Counter(r.get("tests", "not run") for r in silent)
        out += ["## %s" % label, "", "%d mutants: %d reported by a rule, %d silent (of these the test suite: %s)" % (
            len(rows), c["DETECTED"], c["SILENT"], ", ".join("%s %d" % (k, v) for k, v in sorted(t.items()))), "",
            "| file:line | mutant | tests | triage |", "|---|---|---|---|"]
        for r in sorted(silent, key=lambda r: (r["file"], r["line"])):
            key = "%s:%d:%s" % (r["file"], r["line"], r["new"][:6] or "del")
            out.append("| %s:%d | `%s` %s | %s | %s |" % (r["file"], r["line"], r["src"][:70].replace("|", "\\|"), ("-> `%s`" % r["new"]) if r["new"] else "deleted", r.get("tests", "-"), reason(r["file"], r["line"]) or "**untriaged**"))
        out.append("")
        allrows += rows
    with open(os.path.join(VERIF, "sweep", "mutation_sweep.md"), "w") as fh:
        fh.write("\n".join(out) + "\n")
    print("written", len(allrows), "mutants")


main()
