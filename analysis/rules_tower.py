"""Tower rules on authentication (AU1), slot accounting shapes (SL), subscription boundaries (SB), receipts (RC)."""
from .facts import call_names, call_target
from .framework import RuleResult
from . import origin as og
from .rulekit import (sites, sites_containing, arg_origin, has_call, find_calls, const_of, variant_fact, truth_fact,
                      switch_succ_with, always_reaches, loc, shortfn, facts_at)
from .rules_order import call_args, W, RSP, GK, DBM

AUTH = GK + "authenticate_user"
EXPIRED = GK + "has_subscription_expired"


def body_strings(b):
    out = []

    def walk(o):
        if isinstance(o, dict):
            if "str" in o:
                out.append(o["str"])
            if "bytes" in o:
                out.append(o["bytes"])
            for v in o.values():
                walk(v)
        elif isinstance(o, list):
            for v in o:
                walk(v)
    walk(b.blocks)
    return out


def field_writes(ctx, body, field):
    """[(bb, origin of the stored value)] for statements `<place>.field = rv`"""
    out = []
    for bb in body.rpo():
        for s in body.blocks[bb]["s"]:
            if s["k"] == "assign" and len(s["d"]) > 1 and s["d"][-1] == "f:" + field:
                out.append((bb, ctx.og._rvalue(body, s["rv"], 0, ())))
    return out


def _locks_state(ctx, callee):
    """does the callee (transitively) take any lock, i.e. read or write shared tower state?"""
    return bool(ctx.locks.may_acquire().get(callee))


def _expired_flag(ctx, b, bb):
    """value of the must-fact on the *flag itself* returned by has_subscription_expired (`.Ok.0.0`), not on anything merely
    computed from its results (a comparison re-derived from the returned expiry and some other height is not the Gatekeeper's verdict)"""
    for f in facts_at(ctx, b, bb):
        if f[0] == "truth" and _is_flag(f[1]):
            return f[2]
    return None


def _is_flag(t):
    t = og.strip(t)
    return isinstance(t, tuple) and len(t) == 3 and t[0] == "proj" and isinstance(t[1], tuple) and t[1] and t[1][0] == "call" and t[1][1] == EXPIRED \
        and tuple(x for x in t[2] if x != "*") == ("v:Ok", "f:0", "f:0")


def rule_AU1(ctx, tier):
    rr = RuleResult("AU1", "authenticate first, check expiry, then act on the authenticated id; request-specific messages")
    P = ctx.prog
    msgs = {
        W + "add_appointment": ("appointment bytes", None),
        W + "get_appointment": ("format", "\x10get appointment �\x00"),
        W + "get_subscription_info": ("literal", "get subscription info"),
    }
    client_fns = {
        W + "get_appointment": "watchtower_client::get_appointment::{closure#0}",
        W + "get_subscription_info": "watchtower_client::get_subscription_info::{closure#0}",
        W + "add_appointment": "watchtower_client::on_commitment_revocation::{closure#0}",
    }
    for fn, (kind, lit) in msgs.items():
        b = P.require(fn)
        name = fn.split("::")[-1]
        au = sites(b, AUTH)
        ex = sites(b, EXPIRED)
        if len(au) != 1 or len(ex) != 1:
            rr.fail("%s:auth-sites=%d,%d" % (name, len(au), len(ex)), "`%s` must authenticate and check the expiry exactly once (found %d / %d calls)" % (shortfn(fn), len(au), len(ex)), where=b.span)
            continue
        # (a) nothing that touches tower state before both checks passed
        for bb, t in b.calls():
            tgt = call_target(t)
            if tgt in (AUTH, EXPIRED) or tgt is None:
                continue
            touches = any(n in P.bodies and _locks_state(ctx, n) for n in call_names(t)) or any(n.startswith(("std::sync::Mutex", "std::sync::RwLock")) and n.endswith(("::lock", "::read", "::write")) for n in call_names(t))
            if not touches:
                continue
            authed = variant_fact(ctx, b, bb, "Continue", "Gatekeeper::authenticate_user")
            notexp = _expired_flag(ctx, b, bb)
            if authed and notexp is False:
                rr.ok("%s: %s after auth+expiry" % (name, shortfn(tgt)), sample={"rule": "AU1", "in": fn, "call": tgt, "facts": ["authenticate_user = Ok", "has_subscription_expired = false"]})
            else:
                rr.fail("%s:%s-before-%s" % (name, shortfn(tgt), "auth" if not authed else "expiry-check"),
                        "`%s` is reached in `%s` on a path where %s: an unauthenticated / expired request reads or changes tower state" % (shortfn(tgt), shortfn(fn), "authentication has not succeeded" if not authed else "the subscription has not been found unexpired"),
                        where=b.line_of(bb))
        # expiry check itself comes after authentication
        if variant_fact(ctx, b, ex[0], "Continue", "Gatekeeper::authenticate_user"):
            rr.ok("%s: expiry check after authentication" % name)
        else:
            rr.fail("%s:expiry-before-auth" % name, "has_subscription_expired is evaluated before authentication succeeded", where=b.line_of(ex[0]))
        # failure edges return an error without effects: the Err returned on the expired edge carries the expiry
        exp_edges = [(sw, succ) for sw, succ in switch_succ_with(ctx, b, "truth", True, "Gatekeeper::has_subscription_expired")
                     if any(f[0] == "truth" and f[2] is True and _is_flag(f[1]) for f in ctx.pf.switch_facts(b, sw).get(succ, ()))]
        if not exp_edges:
            rr.fail("%s:no-expired-edge" % name, "`%s` never branches on the flag returned by has_subscription_expired: the Gatekeeper's verdict (taken at its own height, under its own lock) is not what decides" % shortfn(fn), where=b.span)
        for sw, succ in exp_edges:
            eff = [bb for bb in b.reachable(succ) if b.term(bb)["k"] == "call" and any(n in P.bodies and _locks_state(ctx, n) for n in call_names(b.term(bb)))]
            if eff:
                rr.fail("%s:expired-path-has-effects" % name, "the expired-subscription path calls `%s`" % call_target(b.term(eff[0])), where=b.line_of(eff[0]))
            else:
                rr.ok("%s: expired path is effect-free" % name)
        # (b) identity provenance
        uid_sinks = {EXPIRED: 1, "teos::extended_appointment::ExtendedAppointment::new": 1, "teos::extended_appointment::UUID::new": 1,
                     GK + "add_update_appointment": 1, GK + "get_user_info": 1, W + "store_triggered_appointment": 3}
        for bb, t in b.calls():
            for n in call_names(t):
                if n in uid_sinks:
                    a = arg_origin(ctx, b, bb, uid_sinks[n])
                    good = a[0] == "proj" and a[2][:2] == ("v:Ok", "f:0") and has_call(a[1], "Gatekeeper::authenticate_user") and not [p for p in og.walk(a[1]) if False]
                    # the Ok payload must be that of authenticate_user itself (map_err is Ok-preserving and already stripped)
                    good = good and a[1][0] in ("call", "ret") and a[1][1] == AUTH
                    if good:
                        rr.ok("%s: %s acts on the authenticated id" % (name, shortfn(n)))
                    else:
                        rr.fail("%s:identity:%s" % (name, shortfn(n)), "`%s` in `%s` is given user id `%s`, not the key recovered by authenticate_user" % (shortfn(n), shortfn(fn), og.show(a)[:160]), where=b.line_of(bb))
        # uuid used for DB access derives from (locator of the request, authenticated id)
        # (c) message
        m = arg_origin(ctx, b, au[0], 1)
        sig = arg_origin(ctx, b, au[0], 2)
        strs = body_strings(b)
        if kind == "appointment bytes":
            ok = has_call(m, "Appointment::to_vec") and ("param", b.id, 2) in list(og.walk(m))
        elif kind == "format":
            ok = has_call(m, "fmt::format") and lit in strs
            # the formatted argument is the request's locator
            fa = [bb for bb in sites_containing(b, "Argument", "new_display")]
            ok = ok and any(arg_origin(ctx, b, x, 0) == ("param", b.id, 2) for x in fa)
        else:
            ok = (const_of(m) and const_of(m)[0] == lit) or (has_call(m, "to_string") and lit in strs) or (lit in strs and ("const", lit, None, "&str") in list(og.walk(m)))
        if ok:
            rr.ok("%s: signed message = %s" % (name, kind), sample={"rule": "AU1", "in": fn, "message origin": og.show(m)[:160]})
        else:
            rr.fail("%s:message" % name, "`%s` authenticates the signature over `%s`; the message defined for this request is %s%s" % (shortfn(fn), og.show(m)[:160], kind, " `%s`" % lit if lit else ""), where=b.line_of(au[0]))
        if not (sig == ("param", b.id, 3) or (fn.endswith("get_subscription_info") and sig == ("param", b.id, 2))):
            rr.fail("%s:signature-arg" % name, "the signature checked is `%s`, not the request's" % og.show(sig), where=b.line_of(au[0]))
        else:
            rr.ok("%s: request signature checked" % name)
        # sibling: the client signs the same literal
        cf = P.bodies.get(client_fns[fn])
        if cf is None:
            rr.anchor_missing(client_fns[fn])
        elif lit is not None:
            if lit in body_strings(cf):
                rr.ok("%s: client signs the same template" % name)
            else:
                rr.fail("%s:client-template" % name, "the client (`%s`) does not sign the template `%r` the tower verifies" % (client_fns[fn], lit), where=cf.span)
    # the get_appointment message embeds the locator's text form: that is the 32-digit hex of its 16 bytes
    from .rules_wire import identifier_text_forms
    identifier_text_forms(ctx, rr, only=("Locator",))
    # per-user keys: every uuid used to read or write appointment data in the request paths is built from the
    # request's locator and the AUTHENTICATED id (isolation between users sharing a locator)
    ga = P.require(W + "get_appointment")
    for bb, t in ga.calls():
        tgt = call_target(t) or ""
        if tgt in (DBM + "load_tracker", DBM + "load_appointment"):
            u = arg_origin(ctx, ga, bb, 1)
            un = find_calls(u, "UUID::new")
            a = (un[0][2] if un and un[0][0] == "call" else un[0][4]) if un else ()
            if un and len(a) == 2 and a[0] == ("param", ga.id, 2) and has_call(a[1], "Gatekeeper::authenticate_user"):
                rr.ok("get_appointment: %s keyed by UUID::new(request locator, authenticated id)" % shortfn(tgt))
            else:
                rr.fail("get_appointment:key:%s" % shortfn(tgt), "`%s` is keyed by `%s`, not by UUID::new(locator, authenticated id): one user could read another's data" % (shortfn(tgt), og.show(u)[:120]), where=ga.line_of(bb))
    for cid in P.children(ga.id):
        cb = P.bodies[cid]
        for bb, t in cb.calls():
            tgt = call_target(t) or ""
            if tgt in (DBM + "load_tracker", DBM + "load_appointment"):
                u = arg_origin(ctx, cb, bb, 1)
                un = find_calls(u, "UUID::new")
                a = (un[0][2] if un and un[0][0] == "call" else un[0][4]) if un else ()
                if un and len(a) == 2 and a[0] == ("param", ga.id, 2) and has_call(a[1], "Gatekeeper::authenticate_user"):
                    rr.ok("get_appointment closure: %s keyed by the same uuid" % shortfn(tgt))
                else:
                    rr.fail("get_appointment:key:%s" % shortfn(tgt), "`%s` is keyed by `%s`" % (shortfn(tgt), og.show(u)[:120]), where=cb.line_of(bb))
    aa = P.require(W + "add_appointment")
    for bb, t in aa.calls():
        tgt = call_target(t) or ""
        idx = {RSP + "has_tracker": 1, GK + "add_update_appointment": 2, W + "store_appointment": 1, W + "store_triggered_appointment": 1}.get(tgt)
        if idx is None:
            continue
        u = arg_origin(ctx, aa, bb, idx)
        ok = has_call(u, "ExtendedAppointment::uuid") and has_call(u, "ExtendedAppointment::new") and has_call(u, "Gatekeeper::authenticate_user")
        if ok:
            rr.ok("add_appointment: %s keyed by the uuid of (request, authenticated id)" % shortfn(tgt))
        else:
            rr.fail("add_appointment:key:%s" % shortfn(tgt), "`%s` is keyed by `%s`" % (shortfn(tgt), og.show(u)[:120]), where=aa.line_of(bb))
    eu = P.require("teos::extended_appointment::ExtendedAppointment::uuid")
    ru = ctx.og.local(eu, 0)
    un = find_calls(ru, "UUID::new")
    if un and "f:user_id" in og.show(ru) and ("locator" in og.show(ru)):
        rr.ok("ExtendedAppointment::uuid = UUID::new(self.locator(), self.user_id)")
    else:
        rr.fail("uuid:derivation", "ExtendedAppointment::uuid is `%s`" % og.show(ru)[:120], where=eu.span)
    # authenticate_user itself: recover over (message, signature), then membership
    a = P.require(AUTH)
    rec = sites(a, "teos_common::cryptography::recover_pk")
    if len(rec) == 1 and arg_origin(ctx, a, rec[0], 0) == ("param", a.id, 2) and arg_origin(ctx, a, rec[0], 1) == ("param", a.id, 3):
        rr.ok("authenticate_user: recover_pk(message, signature)")
    else:
        rr.fail("auth:recover-args", "authenticate_user does not recover the key from (message, signature)", where=a.span)
    ck = sites_containing(a, "HashMap", "contains_key")
    okret = False
    for r in a.return_blocks():
        pass
    # Ok(user_id) only under contains_key == true
    oks = []
    for bb in a.rpo():
        for s in a.blocks[bb]["s"]:
            if s["k"] == "assign" and s["d"] == [0] and s["rv"]["k"] == "agg" and s["rv"].get("variant") == "Ok":
                oks.append(bb)
    for bb in oks:
        if truth_fact(ctx, a, bb, "contains_key") is True:
            rr.ok("authenticate_user: Ok only for registered keys")
        else:
            rr.fail("auth:ok-without-membership", "authenticate_user returns Ok without the recovered key being a registered user", where=a.line_of(bb))
    if not oks:
        rr.fail("auth:no-ok", "authenticate_user has no Ok return", where=a.span)
    def only_recovered(t):
        """the term is exactly UserId(Ok-payload of recover_pk(message, signature)) — no alternative source"""
        for x in og.walk(t):
            if isinstance(x, tuple) and x and x[0] in ("phi", "top"):
                return False
        rc = find_calls(t, "cryptography::recover_pk")
        if len(rc) != 1:
            return False
        args = rc[0][2] if rc[0][0] == "call" else rc[0][4]
        return args[0] == ("param", a.id, 2) and args[1] == ("param", a.id, 3)
    for bb in ck:
        k = arg_origin(ctx, a, bb, 1)
        if only_recovered(k):
            rr.ok("membership test on the key recovered from (message, signature), and on nothing else")
        else:
            rr.fail("auth:membership-key", "membership is tested for `%s`: the identity is not (only) the key recovered from this request's message and signature (e.g. a remembered key for the same signature would authenticate another message)" % og.show(k)[:160], where=a.line_of(bb))
    for bb in oks:
        for s_ in a.blocks[bb]["s"]:
            if s_["k"] == "assign" and s_["d"] == [0] and s_["rv"]["k"] == "agg" and s_["rv"].get("variant") == "Ok":
                v = ctx.og.operand(a, s_["rv"]["ops"][0])
                if only_recovered(v):
                    rr.ok("authenticate_user returns exactly the recovered key")
                else:
                    rr.fail("auth:returned-identity", "authenticate_user returns `%s`, which is not (only) the key recovered from this request's message and signature" % og.show(v)[:160], where=a.line_of(bb))
    # UUID::new binds locator and user id
    u = P.require("teos::extended_appointment::UUID::new")
    ret = ctx.og.local(u, 0)
    ps = {t for t in og.walk(ret) if isinstance(t, tuple) and t and t[0] == "param"}
    if ("param", u.id, 1) in ps and ("param", u.id, 2) in ps:
        rr.ok("UUID::new depends on locator and user id")
    else:
        # fall back to data flow: both params flow into the hash input
        used = set()
        for bb, t in u.calls():
            for i, aa in enumerate(t["args"]):
                for x in og.walk(ctx.og.operand(u, aa)):
                    if isinstance(x, tuple) and x and x[0] == "param":
                        used.add(x[2])
        if {1, 2} <= used:
            rr.ok("UUID::new consumes locator and user id")
        else:
            rr.fail("uuid:inputs", "UUID::new does not use both the locator and the user id (uses params %s)" % sorted(used), where=u.span)
    rr.require_floor(39, "AU1 instances")
    # the key everything is stored under separates users: UUID = H(locator bytes || an injective encoding of the user's key)
    un = P.bodies.get("teos::extended_appointment::UUID::new")
    if un is None:
        rr.anchor_missing("teos::extended_appointment::UUID::new")
    else:
        pieces, inits = [], []
        for bb, t in un.calls():
            if (call_target(t) or "").split("::")[-1] in ("extend", "extend_from_slice", "append"):
                a0 = og.strip(arg_origin(ctx, un, bb, 0))
                if a0 not in inits:
                    inits.append(a0)
                pieces.append(og.strip(arg_origin(ctx, un, bb, 1)))
        pieces = inits + pieces
        if not pieces:
            # `[a, b].concat()` / `[a, b].join(..)`-free form: the hashed bytes are the concatenation of a literal list
            for bb in sites_containing(un, "Hash", "::hash"):
                h = og.strip(arg_origin(ctx, un, bb, 0))
                if isinstance(h, tuple) and h and h[0] == "call" and h[1].split("::")[-1] == "concat" and len(h[2]) == 1 and isinstance(h[2][0], tuple) and h[2][0][0] == "tuple":
                    pieces = [og.strip(x) for x in h[2][0][1]]
        # `&x[..]` is the whole of x
        def _whole(t):
            if isinstance(t, tuple) and t and t[0] == "call" and t[1].split("::")[-1] == "index" and len(t[2]) == 2 and isinstance(t[2][1], tuple) and t[2][1][:2] == ("agg", "std::ops::RangeFull"):
                return _whole(t[2][0])
            return t
        pieces = [_whole(pc) for pc in pieces]
        loc_ok = any(("param", un.id, 1) in list(og.walk(pc)) and not any(isinstance(x, tuple) and x and x[0] == "call" and x[1].split("::")[-1] not in ("to_vec", "as_ref", "deref", "borrow", "clone", "as_slice", "serialize") for x in og.walk(pc)) for pc in pieces)
        INJ = ("secp256k1::PublicKey::serialize", "secp256k1::PublicKey::serialize_uncompressed", "teos_common::UserId::to_vec")
        usr = [pc for pc in pieces if ("param", un.id, 2) in list(og.walk(pc))]
        usr_ok = bool(usr) and all(all((x[1].endswith(INJ) or x[1].split("::")[-1] in ("to_vec", "as_ref", "deref", "borrow", "clone", "as_slice", "into_iter", "iter")) for x in og.walk(pc) if isinstance(x, tuple) and x and x[0] == "call") for pc in usr)
        hashed = has_call(ctx.og.local(un, 0), "Hash::hash")
        if loc_ok and usr_ok and hashed and len(pieces) == 2:
            rr.ok("UUID = hash(locator || full serialisation of the user's public key)", sample={"rule": "AU1", "UUID::new pieces": [og.show(pc)[:80] for pc in pieces]})
        else:
            rr.fail("uuid-not-injective", "`UUID::new` hashes %s: distinct (locator, user) pairs must give distinct storage keys — an encoding of the key that drops information (x-only, a prefix, ...) lets two users write to the same appointment" % [og.show(pc)[:70] for pc in pieces], where=un.span)
    # a request is bounced as "already triggered" only because of the requester's OWN tracker: the guard of every
    # AlreadyTriggered answer is `Responder::has_tracker(uuid)` itself, with the uuid of (this locator, the authenticated user)
    for fid in P.family(W + "add_appointment") if (W + "add_appointment") in P.bodies else []:
        fb = P.bodies[fid]
        for bb in fb.rpo():
            for st in fb.blocks[bb]["s"]:
                if not (st["k"] == "assign" and st["rv"]["k"] == "agg" and st["rv"].get("variant") == "AlreadyTriggered"):
                    continue
                own = False
                for f in facts_at(ctx, fb, bb):
                    if f[0] != "truth" or f[2] is not True:
                        continue
                    t_ = og.strip(f[1])
                    if isinstance(t_, tuple) and t_ and t_[0] in ("call", "ret") and t_[1].endswith("Responder::has_tracker"):
                        args = t_[2] if t_[0] == "call" else t_[4]
                        u_ = og.show(args[1]) if len(args) > 1 else ""
                        if "authenticate_user(" in u_ and ".v:Ok.f:0" in u_ and ("ExtendedAppointment::uuid(" in u_ or "UUID::new(" in u_) and ("param#2@add_appointment" in u_):
                            own = True
                if own:
                    rr.ok("AlreadyTriggered only for the authenticated user's own tracker")
                else:
                    rr.fail("bounce:foreign-tracker", "add_appointment answers AlreadyTriggered on a path not guarded by `has_tracker(uuid of this locator and the authenticated user)`: another user's tracker for the same locator would bounce (and reveal itself to) this user", where=fb.line_of(bb))
    return rr


# ----------------------------------------------------------------------------------------------- C07
def rule_SL(ctx, tier):
    rr = RuleResult("SL", "slot accounting shapes: guarded subtraction, checked renewal, refund symmetry, reported = persisted")
    P = ctx.prog
    b = P.require(GK + "add_update_appointment")
    ws = field_writes(ctx, b, "available_slots")
    if len(ws) != 1:
        rr.fail("charge:writes=%d" % len(ws), "expected exactly one write of available_slots in add_update_appointment", where=b.span)
    for bb, v in ws:
        # value = (available as i64 - diff) as u32 with diff = required - used
        s = og.show(v)
        from .rulekit import relations
        guard = None
        ok_guard = False
        for op, l, r in relations(ctx, b, bb):
            ls, rs = og.show(l), og.show(r)
            if "compute_appointment_slots" in ls and "f:available_slots" in rs and "compute_appointment_slots" not in rs:
                guard = (("bin", op, l, r), True)
                if op in ("Le", "Lt", "Eq"):
                    ok_guard = True
        if ok_guard:
            rr.ok("charge guarded by diff <= available_slots", sample={"rule": "SL", "write": s[:200], "guard": og.show(guard[0])[:200]})
        else:
            rr.fail("charge:unguarded", "available_slots is decreased without the guard `required - used <= available_slots` holding on that path (guard seen: %s)" % (og.show(guard[0])[:160] if guard else None), where=b.line_of(bb))
        # the written value is available - (required - used)
        subs = [t for t in og.walk(v) if isinstance(t, tuple) and t and t[0] == "bin" and t[1].startswith("Sub")]
        shape = False
        for t in subs:
            if "f:available_slots" in og.show(t[2]) and "compute_appointment_slots" in og.show(t[3]):
                inner = [u for u in og.walk(t[3]) if isinstance(u, tuple) and u and u[0] == "bin" and u[1].startswith("Sub")]
                for u in inner:
                    if "encrypted_blob" in og.show(u[2]) and "get_appointment_length" in og.show(u[3]):
                        shape = True
        if shape:
            rr.ok("charge = available - (slots(new blob) - slots(stored blob))")
        else:
            rr.fail("charge:formula", "the new balance is `%s`, not available - (slots(new) - slots(stored))" % s[:240], where=b.line_of(bb))
        # ... judged on boundary points as well: wherever the guard lets the write happen, the new balance is
        # available - (required - used) if that fits a u32, and is not below the old balance when slots come back on top of a
        # balance that a renewal filled up to u32::MAX (an `as u32` of the i64 difference wraps silently there)
        from .rulekit import eval_u32, Wraps, U32

        def charge_leaf(pt):
            def leaf(t):
                if isinstance(t, tuple) and t and t[0] == "proj" and t[2] and t[2][-1] == "f:available_slots":
                    return pt[0]
                if isinstance(t, tuple) and t and t[0] in ("call", "ret") and "get_appointment_length" in og.show(t) and ("compute_appointment_slots" in og.show(t) or "map_or" in t[1]):
                    return pt[2]
                if isinstance(t, tuple) and t and t[0] in ("call", "ret") and t[1] == "teos_common::appointment::compute_appointment_slots":
                    return pt[1]
                return None
            return leaf
        verdict = "ok"
        for a_ in (0, 1, 5, 10000, U32 - 3, U32 - 2, U32 - 1):
            for req in (1, 2, 4):
                for used in (0, 1, 4):
                    if req - used > a_:
                        continue  # the guard refuses
                    try:
                        got = eval_u32(v, charge_leaf((a_, req, used)))
                    except Wraps:
                        verdict = ("wraps", a_, req, used, None)
                        break
                    if got is None:
                        verdict = None
                        break
                    want = a_ - (req - used)
                    if (want < U32 and got != want) or (want >= U32 and got < a_):
                        verdict = ("wrong", a_, req, used, got)
                        break
                if verdict != "ok":
                    break
            if verdict != "ok":
                break
        if verdict == "ok":
            rr.ok("new balance correct on the boundary grid, never wraps")
        elif verdict is None:
            rr.ok("new balance: form checked (arithmetic not evaluated)")
        else:
            rr.fail("charge:balance-wraps", "add_update_appointment writes `%s`: with available=%d, %d slots needed and %d already paid for, the balance becomes %s — slots coming back from a smaller replacement on top of a balance that a renewal filled up to u32::MAX wrap it (the cast `as u32` truncates silently)" % (s[:120], verdict[1], verdict[2], verdict[3], verdict[4] if verdict[4] is not None else "out of range (panics with overflow checks)"), where=b.line_of(bb))
    # used size defaults to 0 for a new appointment and is read for THIS uuid
    for bb in sites(b, DBM + "get_appointment_length"):
        if arg_origin(ctx, b, bb, 1) == ("param", b.id, 3):
            rr.ok("stored size looked up for the request's uuid")
        else:
            rr.fail("charge:uuid", "stored blob size looked up for `%s`" % og.show(arg_origin(ctx, b, bb, 1)), where=b.line_of(bb))
    for bb, t in b.calls():
        last = (call_target(t) or "").split("::")[-1]
        if last in ("map_or", "unwrap_or") and "Option" in (call_target(t) or "") and has_call(arg_origin(ctx, b, bb, 0), "DBM::get_appointment_length"):
            d_ = const_of(arg_origin(ctx, b, bb, 1))
            if d_ and d_[0] == 0:
                rr.ok("nothing stored under this uuid counts as 0 slots already paid")
            else:
                rr.fail("charge:default-used", "when nothing is stored under the uuid the slots already paid for default to `%s`, not 0: a new appointment is charged less than it takes" % og.show(arg_origin(ctx, b, bb, 1))[:60], where=b.line_of(bb))
    # delete_appointments: the single-statement shortcut (no transaction) is taken only for exactly one appointment and nobody to refund
    da = P.bodies.get(GK + "delete_appointments")
    if da is not None:
        from .rulekit import rel_of_term
        for bb in sites(da, DBM + "remove_appointment"):
            one = nobody = False
            for f in facts_at(ctx, da, bb):
                if f[0] != "truth":
                    continue
                if f[2] is True and has_call(f[1], "is_empty") and has_call(f[1], "HashMap"):
                    nobody = True
                for op, l, r in rel_of_term(f[1], f[2]):
                    k_ = const_of(r)
                    if op == "Eq" and k_ and k_[0] == 1 and has_call(l, "len") and ("param", da.id, 2) in list(og.walk(l)):
                        one = True
            if one and nobody:
                rr.ok("single-delete shortcut only for one appointment and no refund")
            else:
                rr.fail("delete:shortcut-guard", "Gatekeeper::delete_appointments takes the single-statement shortcut `remove_appointment(appointments[0])` on a path where %s: the other appointments of the list stay in the database (their slots stay taken), or the refund computed in memory is never written" % ("the list is not known to hold exactly one appointment" if not one else "there may be users to refund"), where=da.line_of(bb))
    # returned = written = persisted
    up = sites(b, DBM + "update_user")
    for bb in up:
        if variant_fact(ctx, b, bb, "x") or True:
            pass
    if up and all(truth_fact(ctx, b, u, "x") is None for u in up):
        pass
    for sw, succ in [(None, None)]:
        pass
    okret = [bb for bb in b.rpo() for s in b.blocks[bb]["s"] if s["k"] == "assign" and s["d"] == [0] and s["rv"]["k"] == "agg" and s["rv"].get("variant") == "Ok"]
    before = ctx.pf.called_before(b)
    for bb in okret:
        if DBM + "update_user" in before.get(bb, set()):
            rr.ok("Ok(balance) only after update_user persisted it")
        else:
            rr.fail("charge:not-persisted", "add_update_appointment returns Ok on a path that has not persisted the new balance", where=b.line_of(bb))
    for bb in up:
        uo = og.show(arg_origin(ctx, b, bb, 2))
        if "get_mut" in uo and arg_origin(ctx, b, bb, 1) == ("param", b.id, 2):
            rr.ok("update_user(user_id, the in-memory record)")
        else:
            rr.fail("charge:persist-arg", "update_user is given `%s` for user `%s`" % (uo[:100], og.show(arg_origin(ctx, b, bb, 1))), where=b.line_of(bb))
    # renewal
    r = P.require(GK + "add_update_user")
    ws = field_writes(ctx, r, "available_slots")
    for bb, v in ws:
        if has_call(v, "checked_add") and "f:subscription_slots" in og.show(v) and "f:available_slots" in og.show(v):
            rr.ok("renewed slots = checked_add(available, subscription_slots)")
        else:
            rr.fail("renew:slots", "renewal writes available_slots = `%s` (expected checked_add(available_slots, subscription_slots)?)" % og.show(v)[:160], where=r.line_of(bb))
    if len(ws) != 1:
        rr.fail("renew:writes=%d" % len(ws), "expected one write of available_slots in add_update_user", where=r.span)
    # delete_appointments: refund += slots(blob) of the deleted appointment, persisted via batch_remove
    d = P.require(GK + "delete_appointments")
    ws = field_writes(ctx, d, "available_slots")
    if len(ws) != 1:
        rr.fail("refund:writes=%d" % len(ws), "expected one write of available_slots in delete_appointments", where=d.span)
    from .rulekit import eval_u32, Wraps, U32

    def refund_leaf(pt):
        def leaf(t):
            if isinstance(t, tuple) and t and t[0] == "proj" and t[2] and t[2][-1] == "f:available_slots":
                return pt[0]
            if isinstance(t, tuple) and t and t[0] in ("call", "ret") and t[1] == "teos_common::appointment::compute_appointment_slots" \
                    and "get_appointment_user_and_length" in og.show(t):
                return pt[1]
            return None
        return leaf
    for bb, v in ws:
        s = og.show(v)
        # judged on boundary points: the new balance is available + slots(stored blob) wherever that fits a u32, and is
        # never below the old balance where it does not (a renewal fills the balance up to u32::MAX without counting the
        # slots in use, so a later refund can exceed it: a plain `+=` wraps to almost nothing in a release build and
        # panics holding the users and database locks in a build with overflow checks)
        verdict = "ok"
        for a_ in (0, 1, 10000, U32 - 2, U32 - 1):
            for k_ in (1, 2, 17):
                try:
                    got = eval_u32(v, refund_leaf((a_, k_)))
                except Wraps:
                    verdict = ("wraps", a_, k_)
                    break
                if got is None:
                    verdict = None
                    break
                if (a_ + k_ < U32 and got != a_ + k_) or (a_ + k_ >= U32 and got < a_):
                    verdict = ("wrong", a_, k_, got)
                    break
            if verdict != "ok":
                break
        named = "compute_appointment_slots" in s and "get_appointment_user_and_length" in s and "f:available_slots" in s
        if verdict == "ok" and named:
            rr.ok("refund = available + slots(stored blob), never past u32::MAX", sample={"rule": "SL", "refund write": s[:200]})
        elif verdict and verdict[0] == "wraps" and named:
            rr.fail("refund:balance-wraps", "the refund is a plain `available_slots + slots`: a renewal may have filled the balance up to u32::MAX while slots were in use, and giving them back then wraps the balance to almost nothing (release) or panics on the chain thread holding the users and database locks (overflow checks) — at available=%d, refund=%d" % (verdict[1], verdict[2]), where=d.line_of(bb))
        elif verdict and verdict[0] == "wrong" and named:
            rr.fail("refund:formula", "refund writes `%s`: with available=%d and %d slots to give back the balance becomes %d" % (s[:160], verdict[1], verdict[2], verdict[3]), where=d.line_of(bb))
        elif verdict is None and "Add" in s and named:
            rr.ok("refund = available + slots(stored blob)", sample={"rule": "SL", "refund write": s[:200], "judged": "by its form"})
        else:
            rr.fail("refund:formula", "refund writes `%s`" % s[:200], where=d.line_of(bb))
    # the balance persisted with the deletion is the FINAL in-memory balance: every refund (re)writes the user's
    # entry in the map handed to batch_remove_appointments, read after the addition
    from .rulekit import is_iter_next
    ins = [x for x in sites_containing(d, "HashMap", "::insert") if "f:registered_users" not in og.show(arg_origin(ctx, d, x, 0))]
    weak = [x for x in sites_containing(d, "Entry", "or_insert") + sites_containing(d, "HashMap", "::entry") + sites_containing(d, "try_insert")]
    for bb, v in ws:
        if ins and always_reaches(d, d.succ(bb) or [bb], ins, lambda x: is_iter_next(d, x)) if d.succ(bb) else False:
            rr.ok("refund: updated_users entry overwritten after every addition")
        else:
            # the write is a statement inside a block; continue from that block itself
            if ins and always_reaches(d, [bb], ins, lambda x: is_iter_next(d, x)):
                rr.ok("refund: updated_users entry overwritten after every addition")
            else:
                rr.fail("refund:stale-snapshot", "after adding slots back, the user's entry in the map persisted by batch_remove_appointments is not overwritten on every iteration%s: with several refunds for one user the database keeps an earlier balance than memory" % (" (a non-overwriting entry/or_insert is used)" if weak else ""), where=d.line_of(bb))
    for x in ins:
        val = og.show(arg_origin(ctx, d, x, 2))
        if "registered_users" in val or "get_mut" in val or "index" in val:
            rr.ok("refund: persisted value read from the in-memory map")
        else:
            rr.fail("refund:persisted-value", "the value stored for persistence is `%s`, not the user's in-memory record" % val[:100], where=d.line_of(x))
    for bb in sites(d, DBM + "batch_remove_appointments"):
        a2 = og.show(arg_origin(ctx, d, bb, 2))
        if "HashMap" in a2 or "phi" in a2:
            rr.ok("refunded users persisted with the deletion")
    # both DB write calls are mutually exclusive and exactly one happens
    mc = ctx.pf.must_call()[d.id]
    one = sites(d, DBM + "batch_remove_appointments") + sites(d, DBM + "remove_appointment")
    if len(one) == 2 and not (set(d.reachable(one[0])) & {one[1]}) and not (set(d.reachable(one[1])) & {one[0]}):
        rr.ok("exactly one DB delete per call")
    else:
        rr.fail("refund:db-writes", "delete_appointments may perform several / no DB delete calls on one path", where=d.span)
    rets = d.return_blocks()
    for rb in rets:
        seen = ctx.pf.called_before(d).get(rb, set())
        if not ({DBM + "batch_remove_appointments", DBM + "remove_appointment"} & seen):
            # must analysis is an intersection; check via reachability instead
            if not always_reaches(d, [0], one):
                rr.fail("refund:no-db-delete", "delete_appointments can return without deleting from the DB", where=d.span)
    # single-appointment shortcut only when nothing was refunded
    for bb in sites(d, DBM + "remove_appointment"):
        if truth_fact(ctx, d, bb, "is_empty") is True:
            rr.ok("non-transactional delete only without refunds")
        else:
            rr.fail("refund:shortcut", "the single-statement delete is used although users were refunded (refund not persisted)", where=d.line_of(bb))
    # the balance reported to the user is the one returned by the gatekeeper
    a = P.require(W + "add_appointment")
    rets = ctx.og.local(a, 0)
    oks = [t for t in og.walk(rets) if isinstance(t, tuple) and t and t[0] == "agg" and t[2] == "Ok"]
    good = False
    for t in oks:
        tup = dict(t[3]).get("0")
        if tup and tup[0] == "tuple" and len(tup[1]) == 3:
            slots, expiry = tup[1][1], tup[1][2]
            if has_call(slots, "Gatekeeper::add_update_appointment") and has_call(expiry, "Gatekeeper::has_subscription_expired"):
                good = True
    if good:
        rr.ok("add_appointment reports (receipt, slots from add_update_appointment, expiry from the gatekeeper)")
    else:
        rr.fail("report:slots", "Watcher::add_appointment does not return the balance computed by add_update_appointment", where=a.span)
    rr.require_floor(13, "SL instances")
    # "ceil(blob length / 2048) each, never less than one": the slot function is clamped from below, and "nothing stored for
    # this uuid" (None) is told apart from "stored with length 0" when the size already paid for is worked out
    cs = P.bodies.get("teos_common::appointment::compute_appointment_slots")
    if cs is None:
        rr.anchor_missing("teos_common::appointment::compute_appointment_slots")
    else:
        rt = og.strip(ctx.og.local(cs, 0))
        shown = og.show(rt)
        floor = any(isinstance(x, tuple) and x and x[0] == "call" and x[1].split("::")[-1] == "max" and any(isinstance(y, tuple) and y and y[0] == "const" and y[1] == 1 for y in x[2]) for x in og.walk(rt))
        if not floor and isinstance(rt, tuple) and rt and rt[0] == "phi":
            # the clamp written as a branch: `if slots < 1 { 1 } else { slots }` -- every constant arm is >= 1 and the
            # computed value is returned only where a comparison on the way says it is >= 1
            from .rulekit import relations
            consts = [const_of(t) for t in rt[1] if const_of(t)]
            others = [t for t in rt[1] if not const_of(t)]
            def at_least_one(x):
                for bb in cs.rpo():
                    for st_ in cs.blocks[bb]["s"]:
                        if st_["k"] == "assign" and st_["d"] == [0] and not (st_["rv"].get("k") == "use" and "k" in st_["rv"].get("o", {})):
                            for op, l, r in relations(ctx, cs, bb):
                                c = const_of(r)
                                if og.strip(l) == og.strip(x) and c and isinstance(c[0], int) and ((op == "Ge" and c[0] >= 1) or (op == "Gt" and c[0] >= 0) or (op == "Ne" and c[0] == 0)):
                                    return True
                return False
            floor = bool(consts) and all(isinstance(c[0], int) and c[0] >= 1 for c in consts) and len(others) == 1 and at_least_one(others[0])
        ceil_div = "ceil" in shown and "Div(" in shown
        if floor and ceil_div:
            rr.ok("slots(len) = max(ceil(len / slot size), 1)", sample={"rule": "SL", "compute_appointment_slots": shown[:160]})
        elif not ceil_div:
            rr.fail("slot-formula", "compute_appointment_slots is `%s`, not a ceiling division" % shown[:120], where=cs.span)
        else:
            rr.fail("slot-floor", "compute_appointment_slots is `%s`: an empty blob takes 0 slots, so it is held for free (the statement says ceil(len/2048), never less than one)" % shown[:120], where=cs.span)
        ch = P.require(GK + "add_update_appointment")
        for bb in sites(ch, "teos_common::appointment::compute_appointment_slots"):
            a0 = arg_origin(ctx, ch, bb, 0)
            if has_call(a0, "DBM::get_appointment_length") and has_call(a0, "unwrap_or") and floor:
                rr.fail("stored-none-as-zero-length", "the size already paid for is `%s`: with the lower clamp a uuid with nothing stored would count as one slot already paid" % og.show(a0)[:100], where=ch.line_of(bb))
    return rr


# ----------------------------------------------------------------------------------------------- C09
def _cmp(term):
    """normalise a comparison term to (op, lhs, rhs); handles !(a < b) and returns the orientation as written"""
    from .rulekit import rel_of_term
    r = rel_of_term(term, True)
    return r[0] if r else None


def _cmp_any(term, pred):
    from .rulekit import rel_of_term
    return any(pred(op, l, r) for op, l, r in rel_of_term(term, True))


def rule_SB(ctx, tier):
    rr = RuleResult("SB", "subscription boundaries: expired iff height >= expiry; purged iff height >= expiry + delta; renewal arithmetic")
    P = ctx.prog
    # the verdict, whether it is built in a `map_or` closure or in a `match` arm of the function itself: every Ok(..) the
    # function (or a closure nested in it) can build is (height >= user.subscription_expiry, user.subscription_expiry)
    hse = P.require(GK + "has_subscription_expired")
    oks = []
    for cid in P.family(hse.id):
        rt = ctx.og.local(P.bodies[cid], 0)
        for x in og.walk(rt):
            if isinstance(x, tuple) and x and x[0] == "agg" and x[1].endswith("Result") and x[2] == "Ok" and x not in oks:
                oks.append(x)
        # `.map(|info| (cmp, expiry)).ok_or(..)`: the closure's tuple is the Ok payload
        if cid != hse.id and isinstance(rt, tuple) and rt and rt[0] == "tuple" and len(rt[1]) == 2 and has_call(ctx.og.local(hse, 0), "ok_or"):
            x = ("agg", "std::result::Result", "Ok", (("0", rt),))
            if x not in oks:
                oks.append(x)

    def ok_shape(x):
        tup = dict(x[3]).get("0")
        if not (tup and tup[0] == "tuple" and len(tup[1]) == 2):
            return False
        cmp_, exp = tup[1]
        return _cmp_any(cmp_, lambda op, l, r: op == "Ge" and has_call(l, "Atomic", "load") and "f:last_known_block_height" in og.show(l) and og.show(r).endswith("f:subscription_expiry")) and og.show(exp).endswith("f:subscription_expiry")
    if oks and all(ok_shape(x) for x in oks):
        rr.ok("expired = (last_known_block_height >= subscription_expiry), reports that expiry", sample={"rule": "SB", "has_subscription_expired returns": og.show(oks[0])[:200]})
    else:
        rr.fail("expiry-comparison", "has_subscription_expired returns `%s`; expected Ok((height >= user.subscription_expiry, user.subscription_expiry))" % (" | ".join(og.show(x)[:160] for x in oks) or "no Ok value"), where=hse.span)
    h = P.require(GK + "has_subscription_expired")
    for bb in sites_containing(h, "HashMap", "::get"):
        if arg_origin(ctx, h, bb, 1) == ("param", h.id, 2):
            rr.ok("expiry looked up for the given user")
        else:
            rr.fail("expiry-user", "has_subscription_expired looks up `%s`" % og.show(arg_origin(ctx, h, bb, 1)), where=h.line_of(bb))
    # the purge predicate, whether it is written as an iterator filter closure or as an `if` around a push in a loop
    gou = P.require(GK + "outdated_users_in")
    from .rulekit import rel_of_term

    from .rulekit import eval_u32, eval_u32_rel, Wraps, U32
    M = U32 - 1

    def sum_kind(t):
        """how a sum of block heights is formed: 'plain' (`a + b`, which wraps in a release build and panics in a debug
        one), 'saturating' (saturating_add, or checked_add(..).unwrap_or(MAX)), or None when the term is not a sum"""
        if has_call(t, "saturating_add") or (has_call(t, "checked_add") and has_call(t, "unwrap_or") and "MAX" in og.show(t)):
            return "saturating"
        return "plain" if "Add" in og.show(t) else None

    def height_leaf(pt):
        """values for the leaves of a height expression at a grid point {h, e, d, dur}"""
        def leaf(t):
            if not (isinstance(t, tuple) and t):
                return None
            if t[0] == "param" and t[1] == gou.id and gou.locals[t[2]]["ty"] == "u32":
                return pt["h"]
            if t[0] == "call" and "Atomic" in t[1] and t[1].endswith("::load"):
                return pt["h"]
            if t[0] == "proj" and t[2]:
                return {"f:subscription_expiry": pt["e"], "f:expiry_delta": pt["d"], "f:subscription_duration": pt["dur"]}.get(t[2][-1])
            return None
        return leaf

    def judge_sum(t, a, b):
        """a height sum on the boundary grid: 'ok', ('wraps', point), ('wrong', point, got, want) or None (form unknown)"""
        vals = (0, 1, 2, 6, 4320, M // 2 + 1, M - 6, M - 1, M)
        for x in vals:
            for y in vals:
                pt = {"h": 0, "e": 0, "d": 0, "dur": 0}
                pt[a], pt[b] = x, y
                if a == b:
                    continue
                try:
                    got = eval_u32(t, height_leaf(pt))
                except Wraps:
                    return ("wraps", "%s=%d, %s=%d" % (a, x, b, y))
                if got is None:
                    return None
                if got != min(x + y, M):
                    return ("wrong", "%s=%d, %s=%d" % (a, x, b, y), got, min(x + y, M))
        return "ok"

    def is_purge_cmp(op, l, r):
        return op == "Ge" and isinstance(l, tuple) and l[:2] == ("param", gou.id) and gou.locals[l[2]]["ty"] == "u32" and sum_kind(r) and "f:subscription_expiry" in og.show(r) and "f:expiry_delta" in og.show(r)

    def judge_purge(rels):
        """the purge test on the boundary grid (conjunction of rels): purged <=> h >= e + d over the integers; the points
        h = u32::MAX with e + d beyond it are no block height and are left out"""
        vals = (0, 1, 2, 5, 6, 7, 100, 106, 107, M - 7, M - 6, M - 1, M)
        for d_ in (0, 1, 6, M):
            for e_ in vals:
                for h_ in vals:
                    if h_ == M and e_ + d_ > M:
                        continue
                    pt = {"h": h_, "e": e_, "d": d_, "dur": 0}
                    try:
                        got = [eval_u32_rel(x, height_leaf(pt)) for x in rels]
                    except Wraps:
                        return ("wraps", "height=%d, expiry=%d, grace=%d" % (h_, e_, d_))
                    if any(g is None for g in got):
                        return None
                    if all(got) != (h_ >= e_ + d_):
                        return ("wrong", "height=%d, expiry=%d, grace=%d" % (h_, e_, d_), all(got), h_ >= e_ + d_)
        return "ok"
    cands = []  # (description, [(op, l, r)...])
    for cid in P.family(gou.id):
        cb = P.bodies[cid]
        if cid != gou.id:
            rt = ctx.og.local(cb, 0)
            if rel_of_term(rt, True):
                cands.append((og.show(rt)[:200], rel_of_term(rt, True)))
        for bb in sites_containing(cb, "Vec", "::push"):
            rels = []
            for f_ in facts_at(ctx, cb, bb):
                if f_[0] == "truth":
                    rels.extend(rel_of_term(f_[1], f_[2]))
            if rels:
                cands.append(("if %s { push }" % og.show(("bin", rels[0][0], rels[0][1], rels[0][2]))[:160], rels))
    verdict = judge_purge(cands[0][1][::2]) if len(cands) == 1 else None
    if len(cands) == 1 and (verdict == "ok" or (verdict is None and any(is_purge_cmp(*x) for x in cands[0][1]))):
        rr.ok("outdated = (block_height >= subscription_expiry + expiry_delta)", sample={"rule": "SB", "get_outdated_users filter": cands[0][0], "judged": "on the boundary grid" if verdict == "ok" else "by its form"})
        # a renewal saturates the expiry at u32::MAX (below), so the purge height must not wrap: a wrapping sum turns
        # the LONGEST subscription into one that is purged at the next block (and aborts the chain thread, holding the
        # users lock, in a build with overflow checks)
        if verdict == "ok" or any(is_purge_cmp(*x) and sum_kind(x[2]) == "saturating" for x in cands[0][1]):
            rr.ok("purge height = expiry + delta cannot wrap")
        else:
            rr.fail("purge-height-wraps", "get_outdated_users compares block_height with a plain `subscription_expiry + expiry_delta`; a renewal can leave subscription_expiry at u32::MAX, the sum then wraps (release) or panics under the users lock (debug), and that subscriber is purged at the next block instead of never", where=gou.span)
    elif len(cands) == 1 and verdict and verdict[0] == "wraps":
        rr.fail("purge-height-wraps", "get_outdated_users selects users with `%s`, whose arithmetic leaves the u32 range at %s (a renewal can leave subscription_expiry at u32::MAX): it wraps (release) or panics under the users lock (debug), and that subscriber is purged at the next block instead of never" % (cands[0][0][:160], verdict[1]), where=gou.span)
    elif len(cands) == 1 and verdict:
        rr.fail("purge-comparison", "get_outdated_users selects users with `%s`: at %s it says %s where `block_height >= subscription_expiry + expiry_delta` is %s" % (cands[0][0][:160], verdict[1], verdict[2], verdict[3]), where=gou.span)
    else:
        rr.fail("purge-comparison", "get_outdated_users selects users with `%s`; expected exactly one test, block_height >= subscription_expiry + expiry_delta" % (" / ".join(c[0] for c in cands)[:200] or "no comparison"), where=gou.span)
    # renewal
    r = P.require(GK + "add_update_user")
    ws = field_writes(ctx, r, "subscription_expiry")
    if len(ws) != 1:
        rr.fail("renew:expiry-writes=%d" % len(ws), "expected one write of subscription_expiry in add_update_user", where=r.span)
    for bb, v in ws:
        s = og.show(v)
        sat = has_call(v, "saturating_add") or (has_call(v, "checked_add") and has_call(v, "unwrap_or") and "MAX" in s)
        jv = judge_sum(v, "e", "dur")
        if jv == "ok" or (jv is None and sat and "f:subscription_expiry" in s and "f:subscription_duration" in s):
            rr.ok("renewed expiry = expiry + duration, saturating at u32::MAX")
        elif jv and jv[0] == "wraps":
            rr.fail("renew:expiry-wraps", "renewal writes subscription_expiry = `%s`, which leaves the u32 range at %s: the renewed subscription wraps to a height in the past (release) or the handler panics under the users lock (debug)" % (s[:160], jv[1]), where=r.line_of(bb))
        elif jv:
            rr.fail("renew:expiry", "renewal writes subscription_expiry = `%s`: at %s that is %d, not expiry + duration (saturating) = %d" % (s[:160], jv[1], jv[2], jv[3]), where=r.line_of(bb))
        else:
            rr.fail("renew:expiry", "renewal writes subscription_expiry = `%s`" % s[:200], where=r.line_of(bb))
        if variant_fact(ctx, r, bb, "Some", "HashMap", "get_mut"):
            rr.ok("renewal only for an existing user")
        else:
            rr.fail("renew:arm", "subscription_expiry is rewritten outside the existing-user arm", where=r.line_of(bb))
    # a renewal is all-or-nothing: once a field of the live record is written, the record is persisted before
    # returning (no fallible step between the in-memory write and DBM::update_user)
    ups = sites(r, DBM + "update_user")
    for fld in ("subscription_expiry", "available_slots"):
        for bb, v in field_writes(ctx, r, fld):
            if not variant_fact(ctx, r, bb, "Some", "HashMap", "get_mut"):
                continue
            if ups and always_reaches(r, [bb], ups):
                rr.ok("renewal: %s written => update_user follows" % fld)
            else:
                rr.fail("renew:memory-write-not-persisted:%s" % fld, "add_update_user writes `%s` of the live in-memory record on a path that can return (e.g. MaxSlotsReached) without persisting it: memory and database disagree and a REJECTED renewal still moves the subscription" % fld, where=r.line_of(bb))
    for bb in sites(r, "teos::gatekeeper::UserInfo::new"):
        a0, a1, a2 = (arg_origin(ctx, r, bb, i) for i in range(3))
        s2 = og.show(a2)
        jv = judge_sum(a2, "h", "dur")
        head_ok = og.show(a0).endswith("f:subscription_slots") and has_call(a1, "Atomic", "load")
        if head_ok and (jv == "ok" or (jv is None and sum_kind(a2) == "saturating" and "f:subscription_duration" in s2 and has_call(a2, "Atomic", "load"))):
            rr.ok("new user = (slots, start = height, expiry = height + duration)")
            rr.ok("first expiry = height + duration cannot wrap")
        elif head_ok and ((jv and jv[0] == "wraps") or (jv is None and sum_kind(a2) == "plain" and "f:subscription_duration" in s2 and has_call(a2, "Atomic", "load"))):
            rr.ok("new user = (slots, start = height, expiry = height + duration)")
            rr.fail("register:first-expiry-wraps", "a new user's expiry is a plain `height + subscription_duration`: for a duration above u32::MAX - height the sum wraps to a height in the past (release) or panics under the users lock (debug), while a renewal of the same subscription saturates", where=r.line_of(bb))
        elif head_ok and jv:
            rr.fail("register:new-user", "a new user is created with expiry `%s`: at %s that is %d, not height + duration = %d" % (s2[:100], jv[1], jv[2], jv[3]), where=r.line_of(bb))
        else:
            rr.fail("register:new-user", "a new user is created as UserInfo::new(%s, %s, %s)" % (og.show(a0)[:60], og.show(a1)[:60], s2[:80]), where=r.line_of(bb))
        if variant_fact(ctx, r, bb, "None", "HashMap", "get_mut"):
            rr.ok("new record only for an unknown user")
        else:
            rr.fail("register:arm", "UserInfo::new outside the unknown-user arm", where=r.line_of(bb))
    # the receipt reports the persisted values
    for bb in sites(r, "teos_common::receipts::RegistrationReceipt::new"):
        names = ["available_slots", "subscription_start", "subscription_expiry"]
        allok = arg_origin(ctx, r, bb, 0) == ("param", r.id, 2)
        for i, n in enumerate(names):
            s = og.show(arg_origin(ctx, r, bb, i + 1))
            if not ("f:" + n) in s:
                allok = False
        if allok:
            rr.ok("registration receipt built from the stored record's fields")
        else:
            rr.fail("register:receipt-fields", "RegistrationReceipt::new is not fed (user_id, available_slots, subscription_start, subscription_expiry) of the stored record", where=r.line_of(bb))
    rr.require_floor(10, "SB instances")
    return rr


# ----------------------------------------------------------------------------------------------- C08
def rule_RC(ctx, tier):
    rr = RuleResult("RC", "receipts are built from what was stored; a receipt only after a store; responses map like-named fields")
    P = ctx.prog
    a = P.require(W + "add_appointment")
    # every Ok return passed store_appointment or store_triggered_appointment
    okret = [bb for bb in a.rpo() for s in a.blocks[bb]["s"] if s["k"] == "assign" and s["d"] == [0] and s["rv"]["k"] == "agg" and s["rv"].get("variant") == "Ok"]
    stores = sites(a, W + "store_appointment") + sites(a, W + "store_triggered_appointment")
    for bb in okret:
        pre = set()
        # reaching this block requires having passed one of the stores
        ok = all(True for _ in [0]) and not _reach_avoiding(a, 0, bb, set(stores))
        if ok:
            rr.ok("receipt only after the appointment was stored / handed to the responder", sample={"rule": "RC", "Ok return": "dominated by store_appointment | store_triggered_appointment"})
        else:
            rr.fail("receipt-without-store", "add_appointment can return a signed receipt on a path that stored nothing", where=a.line_of(bb))
    if not okret:
        rr.fail("no-ok-return", "add_appointment has no Ok return", where=a.span)
    # "stored" means written: every path through Watcher::store_appointment writes the version it was given
    sa = P.require(W + "store_appointment")
    writes = sites(sa, "teos::dbm::DBM::store_appointment") + sites(sa, "teos::dbm::DBM::update_appointment")
    from .rulekit import always_reaches
    if writes and always_reaches(sa, [0], writes) and all(arg_origin(ctx, sa, x, 1) == ("param", sa.id, 2) and arg_origin(ctx, sa, x, 2) == ("param", sa.id, 3) for x in writes):
        rr.ok("store_appointment writes (uuid, appointment) to the DB on every path", sample={"rule": "RC", "store_appointment": "insert | update on every path, with its own arguments"})
    else:
        rr.fail("store-may-skip-write", "`Watcher::store_appointment` can return without writing the appointment it was given (insert or update) — the receipt then binds a version the tower does not hold", where=sa.span)
    # the stored value and the receipt come from the same ExtendedAppointment
    ea = sites(a, "teos::extended_appointment::ExtendedAppointment::new")
    rn = sites(a, "teos_common::receipts::AppointmentReceipt::new")
    if len(ea) == 1 and len(rn) == 1:
        sig = arg_origin(ctx, a, rn[0], 0)
        sb = arg_origin(ctx, a, rn[0], 1)
        e_args = [arg_origin(ctx, a, ea[0], i) for i in range(4)]
        # receipt fields are fields of the extended appointment => origin = the corresponding ctor args
        ssig, ssb = og.show(sig), og.show(sb)
        if "ExtendedAppointment::new" in ssig and ssig.endswith("f:user_signature") and "ExtendedAppointment::new" in ssb and ssb.endswith("f:start_block"):
            rr.ok("receipt(user_signature, start_block) = fields of the stored extended appointment")
        else:
            rr.fail("receipt-fields", "AppointmentReceipt::new(%s, %s) is not built from the stored ExtendedAppointment" % (ssig[:100], ssb[:100]), where=a.line_of(rn[0]))
        if e_args[2] == ("param", a.id, 3) and has_call(e_args[3], "Atomic", "load") and "f:last_known_block_height" in og.show(e_args[3]) and e_args[0] == ("param", a.id, 2):
            rr.ok("extended appointment = (request appointment, authenticated id, request signature, current height)")
        else:
            rr.fail("extended-appointment-fields", "ExtendedAppointment::new(%s)" % ", ".join(og.show(x)[:50] for x in e_args), where=a.line_of(ea[0]))
        from .rulekit import ctors_keep_args, accessors_return_field
        ctors_keep_args(ctx, rr, "tower")
        accessors_return_field(ctx, rr, ("teos_common::receipts::AppointmentReceipt", "teos_common::receipts::RegistrationReceipt"))
        # ... and the constructor keeps what it is given: each field of the record is the parameter of that name, untouched (the
        # record is what gets stored, what the receipt is built from and what is returned on get_appointment)
        cn = P.bodies.get("teos::extended_appointment::ExtendedAppointment::new")
        if cn is None:
            rr.anchor_missing("teos::extended_appointment::ExtendedAppointment::new")
        else:
            ret_ = og.strip(ctx.og.local(cn, 0))
            if isinstance(ret_, tuple) and ret_ and ret_[0] == "agg":
                badf = []
                for fname, val in ret_[3]:
                    want_ = next((i for i in range(1, cn.argc + 1) if cn.locals[i].get("name") == fname), None)
                    if want_ is None or og.strip(val) != ("param", cn.id, want_):
                        badf.append("%s = %s" % (fname, og.show(val)[:50]))
                if not badf:
                    rr.ok("ExtendedAppointment::new stores its %d parameters verbatim" % len(ret_[3]))
                else:
                    rr.fail("extended-appointment-ctor:%s" % badf[0].split(" = ")[0], "ExtendedAppointment::new does not keep its arguments as given (%s): what the tower stores, signs into the receipt and reads back is no longer what the user sent" % "; ".join(badf), where=cn.span)
            else:
                rr.fail("extended-appointment-ctor:shape", "ExtendedAppointment::new does not return a plain record of its parameters", where=cn.span)
        for st in stores:
            ap = arg_origin(ctx, a, st, 2)
            if has_call(ap, "ExtendedAppointment::new"):
                rr.ok("store gets the same extended appointment")
            else:
                rr.fail("store-arg", "store call is given `%s`" % og.show(ap)[:100], where=a.line_of(st))
    else:
        rr.fail("shape", "add_appointment: expected one ExtendedAppointment::new and one AppointmentReceipt::new", where=a.span)
    # receipts are signed with the tower key before being returned
    for fn, ctor in ((W + "add_appointment", "AppointmentReceipt"), (W + "register", "RegistrationReceipt")):
        b = P.require(fn)
        sg = sites_containing(b, ctor, "::sign")
        if sg and all("f:signing_key" in og.show(arg_origin(ctx, b, s, 1)) for s in sg):
            okr = [bb for bb in b.rpo() for s in b.blocks[bb]["s"] if s["k"] == "assign" and s["d"] == [0] and s["rv"]["k"] == "agg" and s["rv"].get("variant") == "Ok"]
            if all(not _reach_avoiding(b, 0, bb, set(sg)) for bb in okr) and okr:
                rr.ok("%s signs the receipt with the tower key before returning it" % shortfn(fn))
            else:
                rr.fail("unsigned-receipt:%s" % shortfn(fn), "`%s` can return a receipt that was not signed" % shortfn(fn), where=b.span)
        else:
            rr.fail("sign-key:%s" % shortfn(fn), "`%s` does not sign with self.signing_key" % shortfn(fn), where=b.span)
    # gRPC response field mapping
    api = "teos::api::internal::<impl teos::protos::public_tower_services_server::PublicTowerServices for std::sync::Arc<teos::api::internal::InternalAPI>>::"
    want = {
        "register": ("RegisterResponse", {"available_slots": "available_slots", "subscription_start": "subscription_start", "subscription_expiry": "subscription_expiry", "subscription_signature": "signature", "user_id": "f:user_id"}),
        "add_appointment": ("AddAppointmentResponse", {"start_block": "start_block", "signature": "signature", "locator": "locator", "available_slots": "Watcher::add_appointment", "subscription_expiry": "Watcher::add_appointment"}),
        "get_subscription_info": ("GetSubscriptionInfoResponse", {"available_slots": "f:available_slots", "subscription_expiry": "f:subscription_expiry", "locators": "get_subscription_info"}),
    }
    for m, (adt, fields) in want.items():
        fam = [P.bodies[x] for x in P.family(api + m)]
        found = False
        for b in fam:
            for bb in b.rpo():
                for s in b.blocks[bb]["s"]:
                    if s["k"] == "assign" and s["rv"]["k"] == "agg" and s["rv"].get("adt", "").endswith("::" + adt):
                        found = True
                        t = ctx.og._rvalue(b, s["rv"], 0, ())
                        fo = dict(t[3])
                        for f, frag in fields.items():
                            so = og.show(fo.get(f, ("top", "missing")))
                            if frag in so:
                                rr.ok("%s.%s <- %s" % (adt, f, frag))
                            else:
                                rr.fail("response-field:%s.%s" % (adt, f), "response field `%s.%s` is filled from `%s` (expected the receipt's / record's `%s`)" % (adt, f, so[:120], frag), where=b.line_of(bb))
        if not found:
            rr.anchor_missing(adt + " construction in " + m)
    # positional disambiguation for add_appointment's (receipt, slots, expiry) tuple and register's getters
    b = [P.bodies[x] for x in P.family(api + "add_appointment")]
    for body in b:
        for bb in body.rpo():
            for s in body.blocks[bb]["s"]:
                if s["k"] == "assign" and s["rv"]["k"] == "agg" and s["rv"].get("adt", "").endswith("::AddAppointmentResponse"):
                    t = dict(ctx.og._rvalue(body, s["rv"], 0, ())[3])
                    sl, ex = og.show(t["available_slots"]), og.show(t["subscription_expiry"])
                    if sl.endswith("f:0.f:1") and ex.endswith("f:0.f:2"):
                        rr.ok("AddAppointmentResponse slots/expiry = tuple positions 1/2")
                    else:
                        rr.fail("response-tuple-order", "available_slots <- `%s`, subscription_expiry <- `%s`" % (sl[-40:], ex[-40:]), where=body.line_of(bb))
    rr.require_floor(20, "RC instances")
    return rr


def _reach_avoiding(b, start, target, avoid):
    """is `target` reachable from `start` without passing through (the successors of) a block in avoid?"""
    seen, st = set(), [start]
    while st:
        x = st.pop()
        if x in seen:
            continue
        seen.add(x)
        if x == target:
            return True
        if x in avoid:
            continue
        st.extend(b.succ(x))
    return False
