"""Client plugin rules PL1-PL7 (DESIGN 3, 'Client plugin')."""
from collections import deque

from .facts import call_names, call_target
from .framework import RuleResult
from . import origin as og
from .rulekit import (sites, sites_containing, arg_origin, has_call, find_calls, const_of, variant_fact, truth_fact,
                      switch_succ_with, always_reaches, is_iter_next, loc, shortfn, facts_at)

WT = "watchtower_plugin::wt_client::WTClient::"
PDBM = "watchtower_plugin::dbm::DBM::"
HOOK = "watchtower_client::on_commitment_revocation::{closure#0}"
RUN = "watchtower_plugin::retrier::Retrier::run::{closure#0}"
START = "watchtower_plugin::retrier::Retrier::start"
RT = "watchtower_plugin::retrier::Retrier::"
RM = "watchtower_plugin::retrier::RetryManager::"
HTTP_ADD = "watchtower_plugin::net::http::add_appointment"
RECORDERS = {WT + "add_appointment_receipt", WT + "add_pending_appointment", WT + "add_invalid_appointment", WT + "flag_misbehaving_tower"}


def _fact_summary(ctx, body, bb, base):
    out = []
    for f in sorted(facts_at(ctx, body, bb) - base, key=lambda x: str(x)):
        calls = og.calls_in(f[1])
        name = calls[0].split("::")[-1] if calls else og.show(f[1])[:30]
        if f[0] == "variant":
            out.append("%s" % f[2])
        elif f[0] == "truth":
            out.append("%s=%s" % (name, f[2]))
        elif f[0] == "eq":
            out.append("code==%s" % f[2])
    # keep the discriminating ones
    seen, res = set(), []
    for x in out:
        if x not in seen and x not in ("Some", "Ready", "Continue", "Pending"):
            seen.add(x)
            res.append(x)
    return res


def _escape_paths(ctx, body, start, stop_blocks, exits, exempt=lambda bb: False):
    """blocks in `exits` reachable from start without entering stop_blocks / exempt blocks; returns {exit: path}"""
    prev = {start: None}
    dq = deque([start])
    found = {}
    while dq:
        x = dq.popleft()
        if x in exits and x != start or (x in exits and prev[x] is not None):
            p, y = [], x
            while y is not None:
                p.append(y)
                y = prev[y]
            found[x] = list(reversed(p))
            continue
        if x in stop_blocks or exempt(x):
            continue
        for s in body.succ(x):
            if s not in prev:
                prev[s] = x
                dq.append(s)
    return found


def _loop_some_edges(ctx, body, next_bb):
    out = []
    for sw in body.rpo():
        if body.term(sw)["k"] != "switch":
            continue
        for succ, facts in ctx.pf.switch_facts(body, sw).items():
            for f in facts:
                if f[0] == "variant" and f[2] == "Some" and f[1][0] == "call" and f[1][3] == (body.id, body.orig(next_bb)):
                    out.append(succ)
    return out


def rule_PL1(ctx, tier):
    rr = RuleResult("PL1", "every reply class of a tower ends in a durable record (accepted / pending / invalid / misbehaving proof)")
    P = ctx.prog
    b = P.require(HOOK)
    # the hook is answered only once the handler is done: lightningd takes the answer as "handed over" and never notifies
    # this revocation again, so an answer that precedes the durable record opens a window in which a kill loses it
    handler = HOOK.rsplit("::{closure", 1)[0]
    reg = []
    for cb_ in P.bodies.values():
        if cb_.id.startswith("watchtower_client::main"):
            for bb_, t_ in cb_.calls():
                if (call_target(t_) or "").endswith("Builder::<S, I, O>::hook"):
                    reg.append((cb_, bb_))
    if not reg:
        rr.anchor_missing("Builder::hook registration in main")
    for cb_, bb_ in reg:
        cbk = arg_origin(ctx, cb_, bb_, 2)
        if cbk == ("fn", handler) or (isinstance(cbk, tuple) and cbk and cbk[0] == "fn" and cbk[1] == handler):
            rr.ok("hook registered with the handler itself (answered when the handler returns)", sample={"rule": "PL1", "hook callback": og.show(cbk)})
            continue
        okc = False
        if isinstance(cbk, tuple) and cbk and cbk[0] == "closure" and cbk[1] in P.bodies:
            for fid in P.family(cbk[1]):
                fb = P.bodies[fid]
                for hb_, ht in fb.calls():
                    if call_target(ht) != handler:
                        continue
                    me = og.strip(ctx.og.operand(fb, {"m": ht["dest"]}))
                    users = set()
                    for ub, ut in fb.calls():
                        if ub == hb_:
                            continue
                        for i in range(len(ut.get("args", []))):
                            a = og.strip(arg_origin(ctx, fb, ub, i))
                            if a == me or (isinstance(a, tuple) and me in list(og.walk(a))):
                                users.add(call_target(ut) or "?")
                    bad = {u for u in users if not u.endswith(("IntoFuture>::into_future", "Future>::poll", "Pin::<Ptr>::new_unchecked", "Future::poll", "get_context")) and u != handler + "::{closure#0}"}
                    okc = bool(users) and not bad
                    if bad:
                        rr.fail("hook-answered-before-handler", "the commitment_revocation hook hands the handler's future to `%s` instead of awaiting it: the hook is answered before the appointment is recorded anywhere, and a kill in between loses it (lightningd does not notify it again)" % ", ".join(sorted(shortfn(u) for u in bad)), where=fb.line_of(hb_))
        if okc:
            rr.ok("hook closure awaits the handler before answering")
        elif not (isinstance(cbk, tuple) and cbk and cbk[0] == "closure"):
            rr.fail("hook-callback", "the commitment_revocation hook is registered with `%s`, not with on_commitment_revocation" % og.show(cbk)[:100], where=cb_.line_of(bb_))
    # the notification is taken whatever else lightningd (a newer version, a chained plugin) puts next to the four members the
    # client reads: the decoder of the hook payload has no unknown_field error — a refused payload is a revocation recorded nowhere
    dec = [bid for bid in P.bodies if "Deserialize<'de> for watchtower_plugin::convert::CommitmentRevocation>::deserialize" in bid]
    if not dec:
        rr.anchor_missing("derived Deserialize of convert::CommitmentRevocation")
    else:
        strict = [(bid, bb) for bid in dec for bb, t in P.bodies[bid].calls() if (call_target(t) or "").split("::")[-1] in ("unknown_field", "unknown_variant")]
        if not strict:
            rr.ok("hook payload decoder ignores members it does not know (%d generated bodies)" % len(dec))
        else:
            rr.fail("hook-payload-strict", "the decoder of the commitment_revocation payload refuses unknown members: a notification that carries anything beyond the four fields the client reads is dropped before any tower is tried, and the revocation is recorded in none of accepted / pending / invalid", where=P.bodies[strict[0][0]].line_of(strict[0][1]))
    nexts = [bb for bb in b.rpo() if is_iter_next(b, bb) and "vec::IntoIter" in (call_target(b.term(bb)) or "")]
    if len(nexts) != 1:
        rr.fail("loop-shape", "expected exactly one per-tower loop in on_commitment_revocation (found %d)" % len(nexts), where=b.span)
        return rr
    head = nexts[0]
    starts = _loop_some_edges(ctx, b, head)
    if not starts:
        rr.fail("loop-shape", "cannot find the Some edge of the tower loop", where=b.span)
        return rr
    rec_blocks = {bb for bb, t in b.calls() if call_names(t) & RECORDERS}
    rets = set(b.return_blocks())

    def exempt(bb):
        return truth_fact(ctx, b, bb, "TowerStatus::is_misbehaving") is True
    base = facts_at(ctx, b, starts[0])
    # enumerate the reply classes: every switch edge below the http call defines one; we check reachability of
    # the loop head / return without a record per *leaf* (block preceding the loop head)
    esc = _escape_paths(ctx, b, starts[0], rec_blocks, {head} | rets, exempt)
    # classes that ARE recorded (for the evidence)
    for rb in sorted(rec_blocks):
        rr.ok("recorded:%s[%s]" % (shortfn(call_target(b.term(rb))), ",".join(_fact_summary(ctx, b, rb, base))),
              sample={"rule": "PL1", "reply class": _fact_summary(ctx, b, rb, base), "recorded by": call_target(b.term(rb))})
    if not esc:
        rr.ok("no unrecorded path")
    # group escaping paths by the facts of their last informative block
    groups = {}
    preds = b.preds()
    # all blocks from which head is reachable without record: walk backwards from head over non-stop blocks
    for ex in esc:
        # collect every predecessor chain end: blocks p (reachable from start avoiding stops) with an edge into ex-region
        region = set()
        st = [starts[0]]
        while st:
            x = st.pop()
            if x in region or x in rec_blocks or exempt(x):
                continue
            region.add(x)
            if x == ex:
                continue
            st.extend(b.succ(x))
        # leaves: blocks in region whose must-facts are maximal (no successor in region with more facts)
        for x in region:
            fs = _fact_summary(ctx, b, x, base)
            if not fs:
                continue
            # only consider blocks from which ex is reachable inside region
            if ex not in b.reachable(x, stop=lambda y: y not in region):
                continue
            succ_more = False
            for s in b.succ(x):
                if s in region and s != ex and len(_fact_summary(ctx, b, s, base)) > len(fs) and ex in b.reachable(s, stop=lambda y: y not in region):
                    succ_more = True
            if not succ_more:
                groups.setdefault(tuple(fs), x)
    for fs, x in sorted(groups.items()):
        # drop groups that are strict prefixes of another group (they are interior nodes)
        if any(set(fs) < set(o) for o in groups):
            continue
        rr.fail("unrecorded[%s]" % ",".join(fs),
                "reply class {%s}: the per-tower loop reaches the next tower / the end of the handler without calling any of add_appointment_receipt / add_pending_appointment / add_invalid_appointment / flag_misbehaving_tower — the appointment is left in none of the durable states for that tower" % ", ".join(fs),
                where=b.line_of(x))
    # what is left pending is handed to the retry manager in the same breath (unless the tower is Unreachable: its retrier idles
    # and reloads from disk when it wakes); otherwise no retrier is created or fed for it and it waits for the next restart.
    # (Whether the hook also moves the tower's status is not judged: Retrier::start does that itself.)
    send_sites = {bb for bb, t in b.calls() if (call_target(t) or "").endswith("watchtower_client::send_to_retrier")}
    for x in sorted(bb for bb, t in b.calls() if (call_target(t) or "") == WT + "add_pending_appointment"):
        memo = {}

        def reaches_send(bb):
            if bb in memo:
                return memo[bb] is not False
            if bb in send_sites:
                memo[bb] = True
                return True
            if bb == head or b.term(bb)["k"] == "return":
                memo[bb] = False
                return False
            memo[bb] = None
            res = True
            sf = ctx.pf.switch_facts(b, bb) if b.term(bb)["k"] == "switch" else {}
            for s_ in b.succ(bb):
                if any(f[0] == "truth" and f[2] is True and has_call(f[1], "TowerStatus::is_unreachable") for f in sf.get(s_, ())):
                    continue   # idle retrier: the data stays on disk only
                if not reaches_send(s_):
                    res = False
                    break
            memo[bb] = res
            return res
        if all(reaches_send(s_) for s_ in b.succ(x)):
            rr.ok("pending appointment handed to the retry manager (unless the tower is Unreachable)")
        else:
            rr.fail("pending-not-sent-to-retrier", "on_commitment_revocation stores a pending appointment and moves on without `send_to_retrier` on a path where the tower is not known to be Unreachable: no retrier is created or fed, the appointment waits for the next restart", where=b.line_of(x))
    rr.require_floor(6, "reply classes")
    return rr


def rule_PL2(ctx, tier):
    rr = RuleResult("PL2", "the retry loop makes progress: every reply either removes the locator from the retrier's pending set or leaves run()")
    P = ctx.prog
    b = P.require(RUN)
    nexts = [bb for bb in b.rpo() if is_iter_next(b, bb)]
    if len(nexts) != 1:
        rr.fail("loop-shape", "expected one locator loop in Retrier::run (found %d)" % len(nexts), where=b.span)
        return rr
    head = nexts[0]
    starts = _loop_some_edges(ctx, b, head)
    rm = {bb for bb in sites_containing(b, "HashSet", "::remove") if "f:pending_appointments" in og.show(arg_origin(ctx, b, bb, 0))}
    # (a clause used to forbid emptying the in-memory pending set wholesale — take / drain / retain. Since the retry task reloads
    # what the database holds as pending before it flags the tower reachable (fix 159ea13), a locator that drops out of the
    # in-memory set is picked up again: the set is a work list, the database is the record. What still matters is below: a
    # locator that WAS settled must leave the set before run() can come round to it again.)
    if not starts or not rm:
        rr.fail("loop-shape", "cannot find the loop edge / pending_appointments.remove in Retrier::run", where=b.span)
        return rr
    base = facts_at(ctx, b, starts[0])
    for r in sorted(rm):
        rr.ok("progress:remove[%s]" % ",".join(_fact_summary(ctx, b, r, base)), sample={"rule": "PL2", "reply class": _fact_summary(ctx, b, r, base), "progress": "pending_appointments.remove(locator)"})
    rets = set(b.return_blocks())
    # returning arms
    esc = _escape_paths(ctx, b, starts[0], rm | rets, {head})
    if not esc:
        rr.ok("no reply class loops without progress")
    else:
        groups = {}
        region = set()
        st = [starts[0]]
        while st:
            x = st.pop()
            if x in region or x in rm or x in rets:
                continue
            region.add(x)
            if x == head:
                continue
            st.extend(b.succ(x))
        for x in region:
            fs = _fact_summary(ctx, b, x, base)
            if not fs or head not in b.reachable(x, stop=lambda y: y not in region):
                continue
            groups.setdefault(tuple(fs), x)
        for fs, x in sorted(groups.items()):
            if any(set(fs) < set(o) for o in groups):
                continue
            rr.fail("no-progress[%s]" % ",".join(fs),
                    "reply class {%s} in Retrier::run neither removes the locator from pending_appointments nor returns: `while has_pending_appointments()` re-sends the same appointment at once, outside the back-off" % ", ".join(fs),
                    where=b.line_of(x))
    # run() is driven only by the back-off wrapper
    callers = {c for c, bb in P.callers().get("watchtower_plugin::retrier::Retrier::run", [])}
    fam = set(P.family(START))
    if callers and callers <= fam:
        rr.ok("Retrier::run only called under Retrier::start")
    else:
        rr.fail("run-callers:%s" % ",".join(sorted(shortfn(c) for c in callers - fam)), "Retrier::run is called outside the back-off wrapper")
    rn = []
    for bid in fam:
        fb = P.bodies[bid]
        for bb in sites(fb, "backoff::future::retry_notify"):
            rn.append((fb, bb))
    if len(rn) == 1:
        fb, bb = rn[0]
        bo = arg_origin(ctx, fb, bb, 0)
        s = og.show(bo)
        if bo[0] == "agg" and bo[1].endswith("ExponentialBackoff") and "max_elapsed_time:Option::Some" in s.replace(" ", "") and "from_secs" in s:
            f = dict(bo[3])
            me, mi = og.show(f.get("max_elapsed_time")), og.show(f.get("max_interval"))
            if "param#2" in me and "param#3" in mi:
                rr.ok("back-off bounded by the configured max elapsed time / interval", sample={"rule": "PL2", "ExponentialBackoff": {"max_elapsed_time": me[:80], "max_interval": mi[:80]}})
            else:
                rr.fail("backoff-config", "ExponentialBackoff{max_elapsed_time: %s, max_interval: %s} is not built from the configured values" % (me[:80], mi[:80]), where=fb.line_of(bb))
        else:
            rr.fail("backoff-shape", "retry_notify is not given an ExponentialBackoff with max_elapsed_time set: `%s`" % s[:160], where=fb.line_of(bb))
    else:
        rr.fail("backoff-missing", "expected one retry_notify under Retrier::start, found %d" % len(rn))
    rr.require_floor(5, "PL2 instances")
    # every retryable failure goes through the exponential schedule: `Error::transient` leaves the delay to the back-off
    # (which also enforces max_elapsed_time); a fixed `retry_after` bypasses both, so the retrier never gives up
    ra = []
    for fid in P.family(RUN.rsplit("::{closure", 1)[0]) if RUN.rsplit("::{closure", 1)[0] in P.bodies else P.family(RUN):
        fb = P.bodies[fid]
        for bb, t in fb.calls():
            if (call_target(t) or "").endswith("::retry_after") and "backoff" in (call_target(t) or ""):
                ra.append((fb, bb))
        for bb in fb.rpo():
            for s_ in fb.blocks[bb]["s"]:
                if s_["k"] == "assign" and s_["rv"]["k"] == "agg" and s_["rv"].get("adt", "").startswith("backoff::") and s_["rv"].get("variant") == "Transient":
                    t_ = ctx.og._rvalue(fb, s_["rv"], 0, ())
                    fields = dict(t_[3]) if t_[0] == "agg" else {}
                    r_ = fields.get("retry_after")
                    if not (isinstance(r_, tuple) and r_ and r_[0] == "agg" and r_[2] == "None"):
                        ra.append((fb, bb))
    if not ra:
        rr.ok("retryable errors leave the delay to the exponential back-off (no fixed retry_after)")
    for fb, bb in ra:
        rr.fail("fixed-retry-delay:%s" % shortfn(fb.id), "`%s` returns a transient error with a fixed `retry_after`: the back-off loop then neither grows the interval nor checks max_elapsed_time, so a tower that keeps answering this way is polled for ever and the retrier never goes idle" % shortfn(fb.id), where=fb.line_of(bb))
    return rr


def rule_PL3(ctx, tier):
    rr = RuleResult("PL3", "pending -> accepted/invalid adds the new record before deleting the old one")
    P = ctx.prog
    b = P.require(RUN)
    before = ctx.pf.called_before(b)
    rp = sites(b, WT + "remove_pending_appointment")
    for bb in rp:
        pre = before.get(bb, set())
        ok_acc = variant_fact(ctx, b, bb, "Ok", "net::http::add_appointment")
        if ok_acc and (WT + "add_appointment_receipt") in pre:
            rr.ok("accepted: receipt stored before pending removed")
        elif (not ok_acc) and (WT + "add_invalid_appointment") in pre:
            rr.ok("rejected: invalid stored before pending removed")
        else:
            rr.fail("remove-before-add:%s" % ("accepted" if ok_acc else "rejected"), "remove_pending_appointment is reached on a path that has not first stored the %s" % ("appointment receipt" if ok_acc else "invalid appointment"), where=b.line_of(bb))
        # same locator
    if len(rp) != 2:
        rr.fail("remove-sites=%d" % len(rp), "expected 2 remove_pending_appointment sites in Retrier::run", where=b.span)
    d = P.require(PDBM + "delete_pending_appointment")
    tx = sites_containing(d, "Connection", "transaction")
    q = sites_containing(d, "query_row")
    from . import sql as _sql
    from .rules_sql import _orphans_only
    bodydel = [st for bb_, st in _sql.body_sql(d) if _sql.classify(st)["kind"] == "delete" and _sql.classify(st).get("table") == "appointments"]
    if tx and not q and bodydel and all(_orphans_only(st) for st in bodydel):
        # no count at all: the body delete itself is restricted to bodies nothing refers to (judged by SQ5c)
        rr.ok("no reference count: the body delete is restricted to unreferenced bodies inside the transaction")
    elif tx and q and all(all(x in d.reachable(y) for x in tx) for y in q):
        rr.ok("reference count read before the delete transaction")
    else:
        rr.fail("count-after-delete", "delete_pending_appointment does not count the references before opening the delete transaction", where=d.span)
    # "exactly one of accepted / pending / invalid": an appointment the tower turned down once (503 during its own outage, say) and
    # accepts when the revocation is notified again is filed as accepted AND stays filed as invalid, on disk and in memory
    sr = P.bodies.get(PDBM + "store_appointment_receipt")
    ar = P.bodies.get(WT + "add_appointment_receipt")
    if sr is None or ar is None:
        rr.anchor_missing("store_appointment_receipt / add_appointment_receipt")
    else:
        disk = any(_sql.classify(st)["kind"] == "delete" and _sql.classify(st).get("table") == "invalid_appointments" and "tower_id" in st.lower() for bb_, st in _sql.body_sql(sr))
        mem = any("f:invalid_appointments" in og.show(arg_origin(ctx, ar, bb_, 0)) for bb_ in sites_containing(ar, "HashSet", "::remove"))
        if disk and mem:
            rr.ok("accepted: the invalid link of that (tower, locator) is dropped on disk and in memory")
        else:
            rr.fail("accepted-still-invalid", "storing an appointment receipt leaves the (tower, locator) row of `invalid_appointments` %s: an appointment the tower rejected once and accepts later is reported as accepted and as invalid by `listtowers` / `gettowerinfo`, across restarts, and its body is never released" % ("on disk and in memory" if not disk and not mem else ("on disk" if not disk else "in memory")), where=(sr if not disk else ar).span)
    rr.require_floor(3, "PL3 instances")
    return rr


def rule_PL4(ctx, tier):
    rr = RuleResult("PL4", "trust only verified receipts; extension must be strict; a wrong signer is a misbehaviour")
    P = ctx.prog
    n = 0
    for b in P.bodies.values():
        for bb in sites(b, WT + "add_update_tower"):
            n += 1
            tv = truth_fact(ctx, b, bb, "RegistrationReceipt::verify")
            if tv is True:
                rr.ok("add_update_tower@%s only after receipt.verify == true" % shortfn(b.id), sample={"rule": "PL4", "site": b.id, "guard": "RegistrationReceipt::verify(..) == true"})
            else:
                rr.fail("unverified-registration:%s" % shortfn(b.id), "`%s` records a registration (add_update_tower) on a path where `receipt.verify(&tower_id)` is not known to be true" % shortfn(b.id), where=b.line_of(bb))
            # the verified receipt is the recorded one, verified under the same tower id
            vs = [f for f in facts_at(ctx, b, bb) if f[0] == "truth" and has_call(f[1], "RegistrationReceipt::verify")]
            if vs:
                vt = find_calls(vs[0][1], "RegistrationReceipt::verify")[0]
                vargs = vt[2] if vt[0] == "call" else vt[4]
                rec, tid = arg_origin(ctx, b, bb, 3), arg_origin(ctx, b, bb, 1)
                if og.strip(vargs[0]) == og.strip(rec) and og.strip(vargs[1]) == og.strip(tid):
                    rr.ok("verified receipt == recorded receipt, same tower id @%s" % shortfn(b.id))
                else:
                    rr.fail("verify-mismatch:%s" % shortfn(b.id), "the receipt / tower id that was verified is not the one recorded", where=b.line_of(bb))
    # what gets verified is OUR identity / OUR signature joined with the tower's claims: the receipt objects built from a
    # reply take their first component from the caller's own argument, never from the reply (a receipt the tower signed for
    # somebody else verifies fine under the tower id)
    for fn, ctor, what in (("watchtower_plugin::net::http::register", "RegistrationReceipt::with_signature", "user id"),
                           ("watchtower_plugin::net::http::send_appointment", "AppointmentReceipt::with_signature", "user signature")):
        fam = [P.bodies[x] for x in P.family(fn)] if fn in P.bodies else []
        found = False
        for fb in fam:
            for bb in sites_containing(fb, ctor):
                found = True
                a0 = arg_origin(ctx, fb, bb, 0)
                if isinstance(a0, tuple) and a0 and a0[0] == "param" and a0[1] == fn:
                    rr.ok("%s: receipt built on the caller's own %s" % (shortfn(fn), what), sample={"rule": "PL4", "in": fn, "first component": og.show(a0)})
                else:
                    rr.fail("receipt-identity-from-reply:%s" % shortfn(fn), "`%s` builds the receipt it hands back for verification on `%s` instead of the caller's own %s: a receipt the tower signed for another user / another request verifies under the tower id and is recorded" % (shortfn(fn), og.show(a0)[:80], what), where=fb.line_of(bb))
        if not found:
            rr.anchor_missing("%s in %s" % (ctor, fn))
    if n < 2:
        rr.fail("floor:add_update_tower-sites", "only %d add_update_tower call sites (2 confirmed)" % n)
    a = P.require(WT + "add_update_tower")
    st = sites(a, PDBM + "store_tower_record")
    found = {"expiry": False, "slots": False}
    for sw in a.rpo():
        if a.term(sw)["k"] != "switch":
            continue
        for succ, facts in ctx.pf.switch_facts(a, sw).items():
            for f in facts:
                if f[0] != "truth" or f[1][0] != "bin" or f[1][1] not in ("Le", "Lt", "Ge", "Gt"):
                    continue
                op, l, r = f[1][1], og.show(f[1][2]), og.show(f[1][3])
                which = "expiry" if "subscription_expiry" in l + r else "slots" if "available_slots" in l + r else None
                if not which:
                    continue
                new_left = "param#4" in l or "RegistrationReceipt" in l
                # "new <= old" holds on this edge?
                not_greater = (op == "Le" and new_left and f[2]) or (op == "Gt" and new_left and not f[2]) or (op == "Ge" and not new_left and f[2]) or (op == "Lt" and not new_left and not f[2])
                weak = (op in ("Lt",) and new_left) or (op == "Ge" and new_left) or (op == "Gt" and not new_left) or (op == "Le" and not new_left)
                if weak:
                    rr.fail("non-strict-extension:%s" % which, "add_update_tower compares %s with `%s`: a receipt that merely equals the known subscription would be recorded" % (which, op), where=a.line_of(sw))
                    found[which] = True
                    continue
                if not_greater:
                    found[which] = True
                    if any(s in a.reachable(succ) for s in st):
                        rr.fail("stale-receipt-stored:%s" % which, "a receipt whose %s does not exceed the known one can reach store_tower_record" % which, where=a.line_of(sw))
                    else:
                        rr.ok("known tower: receipt.%s must be strictly larger" % which)
    for which, ok in found.items():
        if not ok:
            rr.fail("no-extension-check:%s" % which, "add_update_tower does not compare the receipt's %s with the known subscription" % which, where=a.span)
    # send_appointment: Ok only if recovered id == tower id
    s = P.require("watchtower_plugin::net::http::send_appointment::{closure#0}")
    oks = [bb for bb in s.rpo() for x in s.blocks[bb]["s"] if x["k"] == "assign" and x["d"] == [0] and x["rv"]["k"] == "agg" and x["rv"].get("variant") == "Ok"]
    errs = [bb for bb in s.rpo() for x in s.blocks[bb]["s"] if x["k"] == "assign" and x["rv"]["k"] == "agg" and x["rv"].get("variant") == "SignatureError"]
    for bb in oks:
        fs = [f for f in facts_at(ctx, s, bb) if f[0] == "truth" and has_call(f[1], "PartialEq", "::eq")]
        good = False
        for f in fs:
            c = find_calls(f[1], "PartialEq", "::eq")[0]
            args = c[2] if c[0] == "call" else c[4]
            sides = [og.show(x) for x in args]
            if f[2] is True and any("recover_pk" in x for x in sides) and any(x.endswith("f:tower_id") or "upvar" in x or "param" in x for x in sides if "recover_pk" not in x):
                good = True
        if good:
            rr.ok("receipt accepted only if recover_pk(receipt) == tower_id", sample={"rule": "PL4", "Ok return guarded by": "recovered_id == tower_id"})
        else:
            rr.fail("unverified-appointment-receipt", "send_appointment returns Ok on a path where the receipt's recovered signer is not known to equal the tower id", where=s.line_of(bb))
    # a well-formed acknowledgement is judged by its signature before anything else: from the `Response` arm every path reaches
    # recover_pk — no earlier exit (a plausibility check on a field the signature does not cover lets a cheating tower choose to be
    # treated as merely unreachable, and no proof is ever stored)
    from .rulekit import always_reaches as _ar
    rec_sites = {bb for bb, t in s.calls() if (call_target(t) or "").endswith("cryptography::recover_pk")}
    resp_edges = switch_succ_with(ctx, s, "variant", "Response", "process_post_response")
    if not rec_sites or not resp_edges:
        rr.fail("send_appointment-shape:response-arm", "send_appointment: cannot find the Response arm / the recover_pk call (%d/%d)" % (len(resp_edges), len(rec_sites)), where=s.span)
    elif all(_ar(s, [succ], rec_sites) for sw, succ in resp_edges):
        rr.ok("every acknowledgement reaches the signature check")
    else:
        rr.fail("ack-rejected-before-signature-check", "send_appointment can leave the `Response` arm before recover_pk ran on the receipt: an acknowledgement signed by a key other than the tower's can be answered with an ordinary error instead of SignatureError(proof) — the tower is retried for ever and never flagged", where=s.line_of(resp_edges[0][0]))
    if not oks or not errs:
        rr.fail("send_appointment-shape", "send_appointment: Ok / SignatureError constructions not found (%d/%d)" % (len(oks), len(errs)), where=s.span)
    for bb in errs:
        fs = [f for f in facts_at(ctx, s, bb) if f[0] == "truth" and has_call(f[1], "PartialEq", "::eq")]
        if fs and fs[0][2] is False:
            rr.ok("wrong signer -> SignatureError(proof)")
        else:
            rr.fail("signature-error-guard", "SignatureError is built on a path not guarded by recovered_id != tower_id", where=s.line_of(bb))
    # the recovered key is computed over the receipt built from the user's own signature and the reply's start_block/signature
    for bb in sites(s, "teos_common::cryptography::recover_pk"):
        m = og.show(arg_origin(ctx, s, bb, 0))
        if "AppointmentReceipt" in m and "to_vec" in m:
            rr.ok("signer recovered over the receipt's signed bytes")
        else:
            rr.fail("recover-message", "the tower's signature is checked over `%s`" % m[:120], where=s.line_of(bb))
    # misbehaviour handling on both paths
    h = P.require(HOOK)
    for bb in sites(h, WT + "flag_misbehaving_tower"):
        if variant_fact(ctx, h, bb, "SignatureError"):
            rr.ok("hook: SignatureError -> flag_misbehaving_tower")
    for sw, succ in switch_succ_with(ctx, h, "variant", "SignatureError"):
        if always_reaches(h, [succ], sites(h, WT + "flag_misbehaving_tower"), lambda x: is_iter_next(h, x)):
            rr.ok("hook: SignatureError always flags")
        else:
            rr.fail("hook:signature-error-unflagged", "a SignatureError reply on the notification path does not flag the tower as misbehaving", where=h.line_of(sw))
    r = P.require(RUN)
    ok = False
    for bb in r.rpo():
        for x in r.blocks[bb]["s"]:
            if x["k"] == "assign" and x["rv"]["k"] == "agg" and x["rv"].get("variant") == "Misbehaving":
                if variant_fact(ctx, r, bb, "SignatureError"):
                    ok = True
    perm = [bb for bb in sites_containing(r, "backoff", "Error", "permanent") if has_call(arg_origin(ctx, r, bb, 0), "x") or "Misbehaving" in og.show(arg_origin(ctx, r, bb, 0))]
    if ok and perm:
        rr.ok("retrier: SignatureError -> permanent RetryError::Misbehaving")
    else:
        rr.fail("retrier:signature-error", "a SignatureError reply on the retry path is not turned into a permanent RetryError::Misbehaving", where=r.span)
    stc = P.require(START + "::{closure#0}")
    fl = sites(stc, WT + "flag_misbehaving_tower")
    if fl and all(variant_fact(ctx, stc, x, "Misbehaving") for x in fl):
        rr.ok("retrier: Misbehaving -> flag_misbehaving_tower")
    else:
        rr.fail("retrier:misbehaving-unflagged", "RetryError::Misbehaving does not lead to flag_misbehaving_tower", where=stc.span)
    rr.require_floor(12, "PL4 instances")
    return rr


def rule_PL5(ctx, tier):
    rr = RuleResult("PL5", "nothing is sent to misbehaving towers; the proof is persisted before the status changes")
    P = ctx.prog
    callers = sorted({c for c, bb in P.callers().get(HTTP_ADD, [])})
    want = {HOOK, RUN}
    if set(callers) == want:
        rr.ok("http::add_appointment called only from the hook and the retrier")
    else:
        rr.fail("senders:%s" % ",".join(shortfn(c) for c in callers), "http::add_appointment is called from %s" % callers)
    h = P.require(HOOK)
    for bb in sites(h, HTTP_ADD):
        if truth_fact(ctx, h, bb, "TowerStatus::is_reachable") is True:
            rr.ok("hook sends only to reachable towers", sample={"rule": "PL5", "send site": HOOK, "guard": "status.is_reachable()"})
        else:
            rr.fail("hook:send-ungated", "the notification handler sends to a tower without `status.is_reachable()`", where=h.line_of(bb))
    # is_reachable is exactly Reachable (not misbehaving): table of TowerStatus predicates
    f = P.require(WT + "flag_misbehaving_tower")
    before = ctx.pf.called_before(f)
    sw_ = [bb for bb in f.rpo() for x in f.blocks[bb]["s"] if x["k"] == "assign" and len(x["d"]) > 1 and x["d"][-1] == "f:status"]
    if not sw_:
        rr.fail("flag:no-status-write", "flag_misbehaving_tower never sets the status", where=f.span)
    for bb in sw_:
        if (PDBM + "store_misbehaving_proof") in before.get(bb, set()):
            rr.ok("proof persisted before status = Misbehaving")
        else:
            rr.fail("flag:status-before-proof", "the in-memory status becomes Misbehaving on a path that has not persisted the proof", where=f.line_of(bb))
    # manual retry cannot target a misbehaving tower: predicate tables, by abstract evaluation over the variants
    from .tables import enum_pred_table
    want = {
        "watchtower_plugin::TowerStatus::is_retryable": {"Unreachable", "SubscriptionError"},
        "watchtower_plugin::TowerStatus::is_reachable": {"Reachable"},
        "watchtower_plugin::TowerStatus::is_misbehaving": {"Misbehaving"},
        "watchtower_plugin::TowerStatus::is_temporary_unreachable": {"TemporaryUnreachable"},
        "watchtower_plugin::TowerStatus::is_unreachable": {"Unreachable"},
        "watchtower_plugin::TowerStatus::is_subscription_error": {"SubscriptionError"},
    }
    for fn, exp in want.items():
        t = enum_pred_table(ctx, fn)
        if t is None or any(v is None for v in t.values()):
            rr.fail("table-undecided:%s" % shortfn(fn), "cannot fold `%s` over the TowerStatus variants (%s)" % (fn, t))
            continue
        good = {v for v, val in t.items() if val}
        if good == exp:
            rr.ok("%s == %s" % (shortfn(fn), sorted(exp)), sample={"rule": "PL5", "predicate": fn, "table": t})
        else:
            rr.fail("status-predicate:%s=%s" % (shortfn(fn), ",".join(sorted(good))), "`%s` is true for %s; documented: %s" % (shortfn(fn), sorted(good), sorted(exp)))
    # Misbehaving is for good: the proof is never deleted, the loader derives Misbehaving from it, and every send gate trusts the
    # in-memory flag — so the one function that writes an arbitrary status must not replace Misbehaving by anything else (the RPC
    # commands flag a tower TemporaryUnreachable on any connection error, whatever it was before)
    from .rulekit import enumerate_paths
    sts_ = P.bodies.get(WT + "set_tower_status")
    if sts_ is None:
        rr.anchor_missing(WT + "set_tower_status")
    else:
        wsites = [bb for bb in sts_.rpo() for st_ in sts_.blocks[bb]["s"] if st_["k"] == "assign" and len(st_["d"]) >= 2 and st_["d"][-1] == "f:status"]
        unguarded = 0
        npaths_ = 0
        for blocks, facts, ended in enumerate_paths(ctx, sts_, [0], stop=lambda x: x in wsites):
            if not (blocks and blocks[-1] in wsites):
                continue
            npaths_ += 1
            okp = False
            for f in facts:
                if f[0] != "truth" or not has_call(f[1], "TowerStatus::is_misbehaving"):
                    continue
                sh = og.show(f[1])
                if f[2] is False and "f:status" in sh:
                    okp = True     # the current status is not Misbehaving
                if f[2] is True and "param#3@set_tower_status" in sh:
                    okp = True     # the new status is Misbehaving
            if not okp:
                unguarded += 1
        if wsites and npaths_ and not unguarded:
            rr.ok("set_tower_status never replaces Misbehaving by another status (%d write paths)" % npaths_)
        elif not wsites:
            rr.fail("misbehaving-not-sticky:shape", "cannot find the status write in WTClient::set_tower_status", where=sts_.span)
        else:
            rr.fail("misbehaving-not-sticky", "WTClient::set_tower_status writes the requested status on a path where the tower may be Misbehaving and the new status is not: `registertower`, `getsubscriptioninfo` and `getappointment` flag a tower TemporaryUnreachable on a connection error, so a tower with a stored misbehaviour proof becomes retryable again and the next revocation is sent to it", where=sts_.line_of(wsites[0]))
    # every hand-over to the retry manager excludes misbehaving towers: at each send site some TowerStatus
    # predicate fact rules the Misbehaving variant out (decided with the predicate tables above)
    tables = {fn.split("::")[-1]: enum_pred_table(ctx, fn) for fn in want}

    def excludes_misbehaving(body, bb):
        for f in facts_at(ctx, body, bb):
            if f[0] != "truth":
                continue
            for name, t in tables.items():
                if t and has_call(f[1], "TowerStatus::" + name) and t.get("Misbehaving") is not None and t["Misbehaving"] != f[2]:
                    return "%s == %s" % (name, f[2])
        return None
    feeds = []
    for fid in ("watchtower_client::on_commitment_revocation::{closure#0}", "watchtower_client::retry_tower::{closure#0}", WT + "with_proxy::{closure#0}"):
        fb = P.require(fid)
        for bb in sites(fb, "watchtower_client::send_to_retrier") + sites_containing(fb, "UnboundedSender", "::send"):
            feeds.append((fb, bb))
    for fb, bb in feeds:
        why = excludes_misbehaving(fb, bb)
        idle_wake = "RevocationData::None" in og.show(arg_origin(ctx, fb, bb, 1)) if "UnboundedSender" in (call_target(fb.term(bb)) or "") else False
        if why:
            rr.ok("feed@%s excludes misbehaving towers (%s)" % (shortfn(fb.id), why), sample={"rule": "PL5", "feed site": fb.id, "guard": why})
        elif idle_wake:
            rr.ok("feed@%s wakes an existing idle retrier only" % shortfn(fb.id), nontrivial=False)
        else:
            rr.fail("misbehaving-tower-fed:%s" % shortfn(fb.id), "`%s` hands a tower to the retry manager on a path where nothing excludes a tower already proven misbehaving: after a restart (or a later revocation) appointments are sent to it again" % shortfn(fb.id), where=fb.line_of(bb))
    rr.require_floor(14, "PL5 instances")
    return rr


def rule_PL6(ctx, tier):
    rr = RuleResult("PL6", "retrier gates: who may feed / wake / create / start a retrier")
    P = ctx.prog
    s = P.require("watchtower_client::send_to_retrier")
    for bb in sites_containing(s, "UnboundedSender", "::send"):
        fs = [f for f in facts_at(ctx, s, bb) if f[0] == "truth" and f[2] is True]
        good = False
        for f in fs:
            t = f[1]
            alts = t[1] if t[0] == "phi" else (t,)
            # `opt.map_or(d, |v| g(v))` is `match opt { None => d, Some(v) => g(v) }`
            ts = og.strip(t)
            if isinstance(ts, tuple) and ts and ts[0] == "call" and ts[1].split("::")[-1] in ("map_or", "map_or_else", "is_none_or") and len(ts[2]) >= 2:
                cl = [a for a in ts[2] if isinstance(a, tuple) and a and a[0] == "closure" and a[1] in P.bodies]
                dflt = [a for a in ts[2][1:] if isinstance(a, tuple) and a and a[0] == "const"] or ([("const", True, None, "bool")] if ts[1].endswith("is_none_or") else [])
                if cl and dflt:
                    alts = (dflt[0], ctx.og.local(P.bodies[cl[-1][1]], 0))
            kinds = set()
            for a in alts:
                if has_call(a, "RetrierStatus::is_running"):
                    kinds.add("running")
                elif a[0] == "const" and a[1] is True:
                    kinds.add("absent")
                else:
                    kinds.add("other")
            if kinds == {"running", "absent"}:
                good = True
        if good:
            rr.ok("send_to_retrier: only if no retrier or retrier running", sample={"rule": "PL6", "send guard": "retrier absent || status.is_running()"})
        else:
            rr.fail("send_to_retrier:gate", "fresh data is sent to the retry manager without the gate (retrier absent or running)", where=s.line_of(bb))
        d = arg_origin(ctx, s, bb, 1)
        if "RevocationData::Fresh" in og.show(d):
            rr.ok("send_to_retrier sends Fresh(locator)")
        else:
            rr.fail("send_to_retrier:data", "send_to_retrier sends `%s`" % og.show(d)[:80], where=s.line_of(bb))
    # the two boolean gates of the manager loop, folded over every retrier state (status x has-pending):
    # should_start <=> Stopped with pending work; the retain predicate keeps exactly Running, Idle and startable retriers
    import itertools
    from .tables import eval_fn

    def state_oracle(status, pending):
        def oracle(names, args, body, t):
            for n in names:
                last = n.split("::")[-1]
                if "retrier::Retrier::" in n or "retrier::RetrierStatus::" in n:
                    if last in ("is_stopped", "is_running", "is_idle", "is_failed"):
                        return ("bool", status == {"is_stopped": "Stopped", "is_running": "Running", "is_idle": "Idle", "is_failed": "Failed"}[last])
                    if last == "has_pending_appointments":
                        return ("bool", pending)
                    if last == "should_start":
                        return ("bool", status == "Stopped" and pending)
            return None
        return oracle
    STATES = list(itertools.product(("Stopped", "Running", "Failed", "Idle"), (False, True)))
    ss = RT + "should_start" if (RT + "should_start") in P.bodies else None
    if ss is None:
        rr.anchor_missing(RT + "should_start")
    else:
        tab = {}
        for st_, pe_ in STATES:
            def orc(names, args, body, t, _o=state_oracle(st_, pe_)):
                if any(n.endswith("::should_start") for n in names):
                    return None
                return _o(names, args, body, t)
            v_ = eval_fn(ctx, ss, orc)
            tab[(st_, pe_)] = v_[1] if v_ and v_[0] == "bool" else None
        if any(v_ is None for v_ in tab.values()):
            rr.fail("should_start:table-undecided", "cannot fold Retrier::should_start over the retrier states (%s)" % tab, where=P.bodies[ss].span)
        elif all(v_ == (k_ == ("Stopped", True)) for k_, v_ in tab.items()):
            rr.ok("should_start <=> Stopped and has pending appointments", sample={"rule": "PL6", "table": {"%s,%s" % k_: v_ for k_, v_ in tab.items()}})
        else:
            rr.fail("should_start:table", "Retrier::should_start is true for %s; a retrier may be (re)started only when it is Stopped and has pending appointments (a Running one would get a second loop, an empty one spins)" % sorted(k_ for k_, v_ in tab.items() if v_), where=P.bodies[ss].span)
    keepers = []
    for bid in P.family(RM + "manage_retry") if (RM + "manage_retry") in P.bodies else []:
        fb_ = P.bodies[bid]
        for bb, t in fb_.calls():
            if (call_target(t) or "").endswith("::retain") and "HashMap" in (call_target(t) or ""):
                a_ = arg_origin(ctx, fb_, bb, 1)
                if isinstance(a_, tuple) and a_ and a_[0] == "closure" and a_[1] in P.bodies:
                    keepers.append(a_[1])
    if len(keepers) != 1:
        rr.fail("retain:shape", "expected one `retriers.retain(..)` in manage_retry, found %d" % len(keepers))
    else:
        # other boolean inputs of the predicate (a call the state does not determine, e.g. a look-up in another map) are tried
        # both ways: the table must come out the same whatever they answer
        kb = P.bodies[keepers[0]]
        extra_names = []

        def with_env(base, env):
            def oracle(names, args, body, t):
                r_ = base(names, args, body, t)
                if r_ is not None:
                    return r_
                dest = t.get("dest") or []
                if len(dest) == 1 and body.locals[dest[0]]["ty"] == "bool":
                    n_ = sorted(names)[0] if names else "?"
                    if n_ not in extra_names:
                        extra_names.append(n_)
                    return ("bool", env.get(n_, False))
                return None
            return oracle
        eval_fn(ctx, keepers[0], with_env(state_oracle("Running", True), {}))
        envs = [dict(zip(extra_names, vals_)) for vals_ in itertools.product((False, True), repeat=min(len(extra_names), 3))] or [{}]
        tab, varies = {}, set()
        for st_, pe_ in STATES:
            outs = set()
            for env in envs:
                v_ = eval_fn(ctx, keepers[0], with_env(state_oracle(st_, pe_), env))
                outs.add(v_[1] if v_ and v_[0] == "bool" else None)
            if len(outs) > 1:
                varies.add((st_, pe_))
            tab[(st_, pe_)] = next(iter(outs)) if len(outs) == 1 else ("depends on " + ", ".join(shortfn(n_) for n_ in extra_names))
        want_ = {k_: (k_[0] in ("Running", "Idle") or k_ == ("Stopped", True)) for k_ in tab}
        if any(v_ is None for v_ in tab.values()):
            rr.fail("retain:table-undecided", "cannot fold the retain predicate of manage_retry over the retrier states (%s)" % tab, where=P.bodies[keepers[0]].span)
        elif tab == want_:
            rr.ok("retain keeps exactly Running, Idle and startable retriers", sample={"rule": "PL6", "table": {"%s,%s" % k_: v_ for k_, v_ in tab.items()}})
        else:
            diff_ = sorted(k_ for k_ in tab if tab[k_] != want_[k_])
            rr.fail("retain:table", "the retain predicate of manage_retry decides %s differently from `should_start || running || idle`: a Running/Idle retrier dropped from the registry lets a second one be created for the same tower; a Failed or finished one kept is never cleaned up" % diff_, where=P.bodies[keepers[0]].span)
    r = P.require("watchtower_client::retry_tower::{closure#0}")
    sends = sites_containing(r, "UnboundedSender", "::send")
    kinds = {}
    for bb in sends:
        d = og.show(arg_origin(ctx, r, bb, 1))
        k = "None" if "RevocationData::None" in d else "Stale" if "RevocationData::Stale" in d else "other"
        kinds[k] = bb
        if k == "None":
            if truth_fact(ctx, r, bb, "RetrierStatus::is_idle") is True and variant_fact(ctx, r, bb, "Some", "HashMap", "get"):
                rr.ok("retrytower: wake (None) only an idle retrier")
            else:
                rr.fail("retrytower:none-gate", "RevocationData::None is sent although the retrier is not known idle", where=r.line_of(bb))
        elif k == "Stale":
            if truth_fact(ctx, r, bb, "TowerStatus::is_retryable") is True and variant_fact(ctx, r, bb, "None", "HashMap", "get"):
                rr.ok("retrytower: Stale only if no retrier and tower retryable")
            else:
                rr.fail("retrytower:stale-gate", "RevocationData::Stale is sent although a retrier exists or the tower is not retryable", where=r.line_of(bb))
            if "f:pending_appointments" in d:
                rr.ok("retrytower: Stale carries the tower's pending set")
            else:
                rr.fail("retrytower:stale-data", "Stale data is `%s`" % d[:100], where=r.line_of(bb))
        else:
            rr.fail("retrytower:other-send", "retry_tower sends `%s`" % d[:80], where=r.line_of(bb))
    if set(kinds) != {"None", "Stale"}:
        rr.fail("retrytower:sends=%s" % ",".join(sorted(kinds)), "retry_tower should have exactly a None and a Stale send", where=r.span)
    # every other path returns Err
    # one retrier per tower
    n = 0
    for b in P.bodies.values():
        for bb in sites(b, "watchtower_plugin::retrier::Retrier::new"):
            n += 1
            if b.id == "watchtower_plugin::retrier::RetryManager::add_pending_appointments" and variant_fact(ctx, b, bb, "Vacant", "HashMap", "entry"):
                rr.ok("Retrier::new only on a vacant entry")
            else:
                rr.fail("second-retrier:%s" % shortfn(b.id), "a Retrier is created at `%s` without the retriers map entry being vacant: two retry loops could run for one tower" % shortfn(b.id), where=b.line_of(bb))
    if n != 1:
        rr.fail("retrier-new-sites=%d" % n, "expected exactly one Retrier::new site")
    # start only if should_start: every call of Retrier::start sits behind `should_start() == true`, either directly or
    # through the manager's one-line wrapper (whose own call sites are then the gated ones)
    sr = "watchtower_plugin::retrier::RetryManager::start_retrying"
    gated_sites = 0
    for cid, cbb in P.callers().get(START, []):
        if "::tests::" in cid:
            continue
        cb_ = P.bodies[cid]
        if cid == sr:
            for b in P.bodies.values():
                for bb in sites(b, sr):
                    gated_sites += 1
                    if truth_fact(ctx, b, bb, "Retrier::should_start") is True:
                        rr.ok("start_retrying only if should_start()")
                    else:
                        rr.fail("start-ungated:%s" % shortfn(b.id), "a retrier is started without `should_start()` (stopped and has pending data)", where=b.line_of(bb))
        elif cid.startswith("watchtower_plugin::retrier::RetryManager::"):
            gated_sites += 1
            if truth_fact(ctx, cb_, cbb, "Retrier::should_start") is True:
                rr.ok("Retrier::start only if should_start() (called from %s)" % shortfn(cid))
            else:
                rr.fail("start-ungated:%s" % shortfn(cid), "a retrier is started without `should_start()` (stopped and has pending data)", where=cb_.line_of(cbb))
        else:
            rr.fail("start-callers:%s" % shortfn(cid), "Retrier::start is called from `%s`; only the retry manager starts retriers" % shortfn(cid), where=cb_.line_of(cbb))
    if gated_sites:
        rr.ok("Retrier::start only from the retry manager")
    else:
        rr.fail("start-callers:none", "nothing starts a retrier")
    ss = P.require("watchtower_plugin::retrier::Retrier::should_start")
    mc = ctx.pf.must_call()[ss.id]
    ret = og.show(ctx.og.local(ss, 0))
    if "is_stopped" in ret and "has_pending_appointments" in ret or ({"watchtower_plugin::retrier::Retrier::is_stopped"} <= mc):
        rr.ok("should_start = stopped && has pending")
    else:
        rr.fail("should_start-shape", "should_start is `%s`" % ret[:100], where=ss.span)
    # the client-visible retrier registry (WTClient.retriers): a retrier is registered while running/idle, removed when it
    # stops, and a FAILED retrier stays registered until the manager itself drops it (remove_if_failed) — this is what makes
    # `retrytower` refuse while a dead retrier object could still swallow the data
    st = P.require("watchtower_plugin::retrier::Retrier::set_status")
    rm_s = [x for x in sites_containing(st, "HashMap", "::remove") if "f:retriers" in og.show(arg_origin(ctx, st, x, 0))]
    in_s = [x for x in sites_containing(st, "HashMap", "::insert") if "f:retriers" in og.show(arg_origin(ctx, st, x, 0))]
    if rm_s and all(truth_fact(ctx, st, x, "Retrier::is_stopped") is True for x in rm_s):
        rr.ok("set_status: registry entry removed only when the retrier is stopped (not when it failed)")
    else:
        rr.fail("registry:removed-unless-stopped", "Retrier::set_status removes the retrier from WTClient.retriers on a path where it is not known to be Stopped (e.g. Failed): a manual retry is then accepted while the manager still holds the dead retrier, which swallows the data", where=st.span)
    # `is_running() || is_idle()` is two nested branches: the insert must be unreachable once both are false,
    # and reached whenever one of them is true
    neither = [succ for sw, succ in switch_succ_with(ctx, st, "truth", False, "Retrier::is_idle") if truth_fact(ctx, st, succ, "Retrier::is_running") is False]
    either = [succ for sw, succ in switch_succ_with(ctx, st, "truth", True, "Retrier::is_running")] + [succ for sw, succ in switch_succ_with(ctx, st, "truth", True, "Retrier::is_idle")]
    if in_s and neither and either and not any(x in st.reachable(n) for n in neither for x in in_s) and all(always_reaches(st, [e], in_s) for e in either):
        rr.ok("set_status: registered exactly while running or idle")
    else:
        rr.fail("registry:insert-gate", "Retrier::set_status does not register the retrier exactly when it is running or idle", where=st.span)
    removers = set()
    for b2 in P.bodies.values():
        if not b2.id.startswith("watchtower_plugin::"):
            continue
        for x in sites_containing(b2, "HashMap", "::remove"):
            if "f:retriers" in og.show(arg_origin(ctx, b2, x, 0)) and "WTClient" in og.show(arg_origin(ctx, b2, x, 0)) + b2.locals[1]["ty"] + " ".join(l["ty"] for l in b2.locals):
                removers.add(b2.id)
    want_rm = {"watchtower_plugin::retrier::Retrier::set_status", "watchtower_plugin::retrier::Retrier::remove_if_failed"}
    if removers == want_rm:
        rr.ok("registry removers = {set_status, remove_if_failed}")
    else:
        rr.fail("registry:removers:%s" % ",".join(sorted(shortfn(x) for x in removers ^ want_rm)), "WTClient.retriers entries are removed by %s (expected %s)" % (sorted(removers), sorted(want_rm)))
    # data sent to an idle retrier is refused
    m = P.require("watchtower_plugin::retrier::RetryManager::manage_retry::{closure#0}")
    loads = sites(m, PDBM + "load_appointment_locators")
    before = ctx.pf.called_before(m)
    for bb in loads:
        st = og.show(arg_origin(ctx, m, bb, 2))
        # the wake-up itself: set_status(Stopped) on the straight path to this reload (not the other wake-up's, a loop turn away)
        turn = {y for y, t_ in m.calls() if (call_target(t_) or "").split("::")[-1] in ("try_recv", "sleep")}
        setst = [x for x in sites(m, "watchtower_plugin::retrier::Retrier::set_status")
                 if "RetrierStatus::Stopped" in og.show(arg_origin(ctx, m, x, 1)) and bb in m.reachable(x, stop=lambda y: y in turn)]
        if "AppointmentStatus::Pending" in st and setst:
            rr.ok("idle wake-up reloads pending locators from disk")
        else:
            rr.fail("idle-wake:reload", "an idle retrier's pending appointments are reloaded from the database without the retrier being set to Stopped on that path (or the reload is not of the Pending ones): it stays Idle with data in memory, is never started, and the timed wake-up reloads again and again", where=m.line_of(bb))
    if len(loads) != 2:
        rr.fail("idle-wake:sites=%d" % len(loads), "expected 2 idle wake-up sites (manual, timed) reloading from disk", where=m.span)
    from .rulekit import reaches_unless
    # Retrier::start: a running retrier means the tower reads TemporaryUnreachable (or keeps its SubscriptionError): the hook feeds a
    # retrier only for a tower that is not Unreachable, so a tower left Unreachable while its retrier runs gets nothing new
    stb = P.bodies.get(START)
    if stb is None:
        rr.anchor_missing(START)
    else:
        tsites = [bb for bb in sites(stb, WT + "set_tower_status") if "TowerStatus::TemporaryUnreachable" in og.show(arg_origin(ctx, stb, bb, 2))]
        run_sites = [bb for bb in sites(stb, RT + "set_status") if "RetrierStatus::Running" in og.show(arg_origin(ctx, stb, bb, 1))]
        sub_err = lambda fs: any(x[0] == "truth" and x[2] is True and has_call(x[1], "TowerStatus::is_subscription_error") for x in fs)
        def _runs_unflagged():
            """can `set_status(Running)` be reached from the entry without passing a flagging site, other than through an edge
            on which the tower is known to be in SubscriptionError?  (a path that returns before the retrier runs is not a run)"""
            seen, st = set(), [0]
            while st:
                x = st.pop()
                if x in seen or x in tsites:
                    continue
                seen.add(x)
                if x in run_sites:
                    return True
                sf = ctx.pf.switch_facts(stb, x) if stb.term(x)["k"] == "switch" else {}
                for y in stb.succ(x):
                    if sub_err(sf.get(y, ())):
                        continue
                    st.append(y)
            return False
        if tsites and run_sites and not _runs_unflagged() and all(truth_fact(ctx, stb, bb, "TowerStatus::is_subscription_error") is False for bb in tsites):
            rr.ok("start: tower flagged TemporaryUnreachable before the retrier runs, unless (and only unless) it is in SubscriptionError")
        else:
            rr.fail("start:tower-status", "Retrier::start does not flag the tower TemporaryUnreachable exactly when it is not in SubscriptionError before setting the retrier Running: a woken retrier runs for a tower that still reads Unreachable (new revocations are then kept from it), or a subscription error is overwritten and the retry never re-registers", where=stb.span)
    # add_pending_appointments keeps what it is given: a new Retrier is built from the locators, or each of them is inserted into
    # the existing retrier's set
    ap = P.bodies.get(RM + "add_pending_appointments")
    if ap is None:
        rr.anchor_missing(RM + "add_pending_appointments")
    else:
        newr = [bb for bb in sites(ap, RT + "new") if og.strip(arg_origin(ctx, ap, bb, 2)) == ("param", ap.id, 3)]
        ins = [bb for bb, t_ in ap.calls() if "HashSet" in (call_target(t_) or "") and (call_target(t_) or "").split("::")[-1] in ("insert", "extend") and "f:pending_appointments" in og.show(arg_origin(ctx, ap, bb, 0))]
        ins_ok = [bb for bb in ins if ("param", ap.id, 3) in list(og.walk(arg_origin(ctx, ap, bb, 1)))]
        if newr and ins_ok:
            rr.ok("add_pending_appointments: new retrier built from the locators / locators inserted into the existing one")
        else:
            rr.fail("manager:locators-not-kept", "RetryManager::add_pending_appointments does not put the locators it receives into %s: they are on disk as pending but the retrier that should send them never hears of them" % ("a new retrier" if not newr else "the existing retrier's pending set"), where=ap.span)
    # what the manager receives for a known tower whose retrier is not idle is added to that tower's pending set before the next turn
    adds = sites(m, RM + "add_pending_appointments")
    turn = {y for y, t_ in m.calls() if (call_target(t_) or "").split("::")[-1] in ("try_recv", "sleep")}
    ok_edges = switch_succ_with(ctx, m, "variant", "Ok", "try_recv")

    def skip(facts):
        for f in facts:
            if f[0] == "truth" and ((f[2] is False and has_call(f[1], "contains_key")) or (f[2] is True and has_call(f[1], "Retrier::is_idle"))):
                return True
        return False
    if not ok_edges or not adds:
        rr.fail("manager:shape", "manage_retry: cannot find the Ok edge of try_recv / the add_pending_appointments calls (%d/%d)" % (len(ok_edges), len(adds)), where=m.span)
    elif all(reaches_unless(ctx, m, [succ], adds, turn, skip) for sw, succ in ok_edges):
        rr.ok("data received for a known tower with a non-idle (or no) retrier is always added to its pending set")
    else:
        rr.fail("manager:received-data-dropped", "manage_retry can take a (tower, locators) message off the channel and go to the next one without add_pending_appointments although the tower is known and its retrier is not idle: the appointment is on disk as pending but no retrier will send it", where=m.line_of(ok_edges[0][0]))
    rr.require_floor(14, "PL6 instances")
    return rr


PAIRS = {
    WT + "add_update_tower": PDBM + "store_tower_record",
    WT + "add_appointment_receipt": PDBM + "store_appointment_receipt",
    WT + "add_pending_appointment": PDBM + "store_pending_appointment",
    WT + "remove_pending_appointment": PDBM + "delete_pending_appointment",
    WT + "add_invalid_appointment": PDBM + "store_invalid_appointment",
    WT + "flag_misbehaving_tower": PDBM + "store_misbehaving_proof",
    WT + "remove_tower": PDBM + "remove_tower_record",
}


def rule_PL7(ctx, tier):
    rr = RuleResult("PL7", "every client mutator changes memory and disk together; only mutators write; reload restores pending work")
    P = ctx.prog
    for mut, part in PAIRS.items():
        b = P.require(mut)
        ps = sites(b, part)
        if not ps:
            rr.fail("no-persist:%s" % shortfn(mut), "`%s` never calls `%s`" % (shortfn(mut), shortfn(part)), where=b.span)
            continue
        # on the known-tower path (Some / contains_key true / ...), the partner is always reached
        edges = switch_succ_with(ctx, b, "variant", "Some", "HashMap") + switch_succ_with(ctx, b, "truth", True, "contains_key") \
            + [e for e in switch_succ_with(ctx, b, "truth", False, "is_none") + switch_succ_with(ctx, b, "truth", True, "is_some")
               if any(f[0] == "truth" and has_call(f[1], "HashMap") for f in ctx.pf.switch_facts(b, e[0]).get(e[1], ()))]
        if mut.endswith("add_update_tower"):
            # both the known and unknown tower paths persist unless rejected with Err
            oks = [bb for bb in b.rpo() for x in b.blocks[bb]["s"] if x["k"] == "assign" and x["d"] == [0] and x["rv"]["k"] == "agg" and x["rv"].get("variant") == "Ok"]
            before = ctx.pf.called_before(b)
            if oks and all(part in before.get(x, set()) for x in oks):
                rr.ok("%s: Ok only after %s" % (shortfn(mut), shortfn(part)))
            else:
                rr.fail("memory-only:%s" % shortfn(mut), "`%s` can return Ok without having persisted" % shortfn(mut), where=b.span)
            continue
        if not edges:
            rr.fail("no-known-tower-arm:%s" % shortfn(mut), "cannot find the known-tower arm of `%s`" % shortfn(mut), where=b.span)
            continue
        # ... and only there: a DB write for a tower that is not (any more) in memory acts on links that abandon already
        # cascaded away — e.g. the reference count of delete_pending_appointment then drops a body another tower still needs
        unknown = [x for x in ps if not (variant_fact(ctx, b, x, "Some", "HashMap") or truth_fact(ctx, b, x, "contains_key") is True or truth_fact(ctx, b, x, "is_some") is True or truth_fact(ctx, b, x, "is_none") is False)]
        if unknown:
            rr.fail("disk-only:%s" % shortfn(mut), "`%s` calls `%s` on a path where the tower is not known to be in memory: the database is changed for an unknown / abandoned tower while memory is not" % (shortfn(mut), shortfn(part)), where=b.line_of(unknown[0]))
            continue
        if all(always_reaches(b, [succ], ps) for sw, succ in edges):
            rr.ok("%s: known tower -> %s" % (shortfn(mut), shortfn(part)), sample={"rule": "PL7", "mutator": mut, "known-tower arm always reaches": part})
        else:
            rr.fail("memory-only:%s" % shortfn(mut), "`%s` can update the in-memory summary of a known tower without calling `%s`" % (shortfn(mut), shortfn(part)), where=b.span)
    # ... and the other way round: whenever the partner is called, the in-memory twin of that write happens too (before it on every
    # path, or after it on every path): a record that is on disk but not in memory is invisible until the next restart
    def mem_blocks(b, kind):
        out = set()
        for bb in b.rpo():
            if kind[0] == "field":
                for st in b.blocks[bb]["s"]:
                    if st["k"] == "assign" and len(st["d"]) >= 2 and st["d"][-1] == "f:" + kind[1]:
                        out.add(bb)
            t = b.term(bb)
            if t["k"] != "call":
                continue
            tg = call_target(t) or ""
            if kind[0] == "set" and "HashSet" in tg and tg.split("::")[-1] == kind[2] and og.show(arg_origin(ctx, b, bb, 0)).endswith("f:" + kind[1]):
                out.add(bb)
            if kind[0] == "map" and "HashMap" in tg and tg.split("::")[-1] == kind[2] and og.show(arg_origin(ctx, b, bb, 0)).endswith("f:towers"):
                out.add(bb)
            if kind[0] == "call" and tg.endswith(kind[1]):
                out.add(bb)
        return out
    MEM = {
        WT + "add_update_tower": [("call", "TowerSummary::udpate"), ("map", None, "insert")],
        WT + "add_appointment_receipt": [("field", "available_slots")],
        WT + "add_pending_appointment": [("set", "pending_appointments", "insert")],
        WT + "remove_pending_appointment": [("set", "pending_appointments", "remove")],
        WT + "add_invalid_appointment": [("set", "invalid_appointments", "insert")],
        WT + "flag_misbehaving_tower": [("field", "status")],
        WT + "remove_tower": [("map", None, "remove")],
    }
    for mut, kinds_ in MEM.items():
        b = P.bodies.get(mut)
        if b is None:
            continue
        mb = set()
        for k_ in kinds_:
            mb |= mem_blocks(b, k_)
        for x in sites(b, PAIRS[mut]):
            # reachable from the entry without passing a memory write?
            seen, todo = set(), [0]
            while todo:
                y = todo.pop()
                if y in seen or y in mb:
                    continue
                seen.add(y)
                todo.extend(b.succ(y))
            before_ok = x not in seen
            after_ok = bool(mb) and always_reaches(b, b.succ(x), mb)
            if before_ok or after_ok:
                rr.ok("%s: the in-memory twin of %s happens on every path (%s)" % (shortfn(mut), shortfn(PAIRS[mut]), "before" if before_ok else "after"))
            else:
                rr.fail("disk-only-write:%s" % shortfn(mut), "`%s` calls `%s` on a path where the in-memory record is not updated (%s): memory and disk disagree until the next restart — pending work is not retried, slots / status shown are stale" % (shortfn(mut), shortfn(PAIRS[mut]), ", ".join(str(k_[1] or "towers") for k_ in kinds_)), where=b.line_of(x))
    # who may call the DBM writers
    writers = set(PAIRS.values())
    for w in sorted(writers):
        callers = {c for c, bb in P.callers().get(w, [])}
        allowed = {m for m, p in PAIRS.items() if p == w}
        if callers <= allowed and callers:
            rr.ok("only %s calls %s" % (",".join(shortfn(a) for a in allowed), shortfn(w)))
        else:
            rr.fail("foreign-writer:%s:%s" % (shortfn(w), ",".join(sorted(shortfn(c) for c in callers - allowed))), "`%s` is called from %s; only %s may (memory and disk would diverge)" % (shortfn(w), sorted(callers - allowed), sorted(allowed)))
    # who may touch the in-memory pending/invalid sets
    allowed_mem = set(PAIRS) | {"watchtower_plugin::TowerSummary::with_appointments", "watchtower_plugin::TowerSummary::new"}
    for b in P.bodies.values():
        if not b.id.startswith(("watchtower_plugin", "watchtower_client", "<watchtower")):
            continue
        for bb in sites_containing(b, "HashSet", "::insert") + sites_containing(b, "HashSet", "::remove") + sites_containing(b, "HashSet", "::clear"):
            recv = og.show(arg_origin(ctx, b, bb, 0))
            if recv.endswith(("f:pending_appointments", "f:invalid_appointments")) and ("TowerSummary" in recv or "f:towers" in recv or "get_mut" in recv):
                if b.id in allowed_mem:
                    rr.ok("summary set written by %s" % shortfn(b.id))
                else:
                    rr.fail("foreign-memory-writer:%s" % shortfn(b.id), "`%s` edits a tower's in-memory pending/invalid set directly (no DB partner)" % shortfn(b.id), where=b.line_of(bb))
    # field write-sets of the in-memory summary: each mutator touches only its own fields; nobody replaces a summary
    # wholesale (which would silently reset status / sets to their defaults)
    allowed = {
        "watchtower_plugin::TowerSummary::udpate": {"net_addr", "available_slots", "subscription_start", "subscription_expiry"},
        WT + "set_tower_status": {"status"},
        WT + "add_appointment_receipt": {"available_slots"},
        WT + "flag_misbehaving_tower": {"status"},
        WT + "add_pending_appointment": set(), WT + "remove_pending_appointment": set(), WT + "add_invalid_appointment": set(),
        "watchtower_plugin::TowerInfo::set_misbehaving_proof": {"misbehaving_proof"},
        PDBM + "load_towers": {"status"},   # loader: status reconstruction (checked by the sibling-agreement rule below)
    }
    from .rulekit import generated_keys_persisted, ctors_keep_args
    generated_keys_persisted(ctx, rr, ("watchtower_plugin::",), PDBM + "store_client_key", "client")
    ctors_keep_args(ctx, rr, "client")
    from .rulekit import accessors_return_field
    accessors_return_field(ctx, rr, ("teos_common::receipts::AppointmentReceipt", "teos_common::receipts::RegistrationReceipt", "teos_common::net::NetAddr"))
    # `abandontower` answers "successfully abandoned" only after WTClient::remove_tower ran
    ab = None
    for bid in P.family("watchtower_client::abandon_tower") if "watchtower_client::abandon_tower" in P.bodies else []:
        if sites(P.bodies[bid], WT + "remove_tower") or any(st_["k"] == "assign" and st_["d"] == [0] for bb_ in P.bodies[bid].rpo() for st_ in P.bodies[bid].blocks[bb_]["s"]):
            ab = P.bodies[bid]
    if ab is None:
        rr.anchor_missing("watchtower_client::abandon_tower")
    else:
        oks_ = [bb for bb in ab.rpo() for st_ in ab.blocks[bb]["s"] if st_["k"] == "assign" and st_["d"] == [0] and st_["rv"]["k"] == "agg" and st_["rv"].get("variant") == "Ok"]
        bef_ = ctx.pf.called_before(ab)
        if oks_ and all((WT + "remove_tower") in bef_.get(x, set()) for x in oks_):
            rr.ok("abandontower: Ok only after remove_tower")
        else:
            rr.fail("abandon:ok-without-removal", "the abandontower command can answer Ok on a path that never called WTClient::remove_tower: the tower stays in memory and on disk and keeps receiving appointments", where=ab.span)
    # set_tower_status(id, s) leaves a known tower with status s on every path: the retrier's start, the give-up arms and the
    # hook all rely on the transition they asked for having happened (Running retrier <=> TemporaryUnreachable / SubscriptionError)
    from .rulekit import enumerate_paths, rel_of_term
    sts = P.bodies.get(WT + "set_tower_status")
    if sts is None:
        rr.anchor_missing(WT + "set_tower_status")
    else:
        wblocks = set()
        for bb in sts.rpo():
            for st in sts.blocks[bb]["s"]:
                if st["k"] == "assign" and len(st["d"]) >= 2 and st["d"][-1] == "f:status":
                    wblocks.add(bb)
        skipped = []
        npaths = 0
        for blocks, facts, ended in enumerate_paths(ctx, sts, [0]):
            if not ended:
                continue
            if not any(f[0] == "variant" and f[2] == "Some" and "get_mut" in og.show(f[1]) and "f:towers" in og.show(f[1]) for f in facts):
                continue
            npaths += 1
            if wblocks & set(blocks):
                continue
            same = False
            for f in facts:
                if f[0] == "truth":
                    for op, l, r in rel_of_term(f[1], f[2]):
                        if op == "Eq" and "f:status" in og.show(l) and og.strip(r) == ("param", sts.id, 3):
                            same = True
                    # the one transition that is refused on purpose: out of Misbehaving (PL5's misbehaving-not-sticky clause)
                    if f[2] is True and has_call(f[1], "TowerStatus::is_misbehaving") and "f:status" in og.show(f[1]):
                        same = True
            if not same:
                skipped.append(blocks)
        if npaths and not skipped:
            rr.ok("set_tower_status: a known tower ends with the requested status on all %d paths (written, or already equal)" % npaths)
        elif not npaths:
            rr.fail("set_tower_status:shape", "cannot find the known-tower paths of set_tower_status", where=sts.span)
        else:
            rr.fail("set_tower_status:transition-ignored", "WTClient::set_tower_status can return for a known tower without writing the requested status and without having found it already set: a caller's transition is dropped (the retrier runs while the tower still reads Unreachable, so the hook stops feeding it)", where=sts.line_of(skipped[0][-2]) if len(skipped[0]) > 1 else sts.span)
    summary_fields = {f["name"] for f in P.adts.get("watchtower_plugin::TowerSummary", {"variants": [{"fields": []}]})["variants"][0]["fields"]}
    for b in P.bodies.values():
        if not b.id.startswith(("watchtower_plugin::", "watchtower_client::")) or b.kind not in ("fn", "method", "closure", "coroutine"):
            continue
        if b.id.endswith(("::new", "::with_appointments", "::with_status", "::default")) or "::_::" in b.id:
            continue
        writes, whole = set(), False
        for bb in b.rpo():
            for st in b.blocks[bb]["s"]:
                if st["k"] != "assign" or len(st["d"]) < 2:
                    continue
                base_ty = b.locals[st["d"][0]]["ty"]
                if "TowerSummary" not in base_ty:
                    continue
                fl = [e for e in st["d"][1:] if e.startswith("f:")]
                if fl and fl[-1][2:] in summary_fields:
                    writes.add(fl[-1][2:])
                elif not fl and st["d"][-1] == "*" and base_ty.startswith("&mut watchtower_plugin::TowerSummary"):
                    whole = True
        if not writes and not whole:
            continue
        al = allowed.get(b.id)
        if whole:
            rr.fail("summary-replaced:%s" % shortfn(b.id), "`%s` overwrites a whole TowerSummary (`*summary = ..`): status and the pending/invalid sets are rebuilt from defaults instead of being kept, so what listtowers reports no longer matches what is persisted" % shortfn(b.id), where=b.span)
        elif al is None:
            rr.fail("summary-foreign-field-writer:%s" % shortfn(b.id), "`%s` writes TowerSummary field(s) %s but is not one of the summary mutators" % (shortfn(b.id), sorted(writes)), where=b.span)
        elif writes <= al:
            rr.ok("%s writes only %s" % (shortfn(b.id), sorted(writes)))
        else:
            rr.fail("summary-extra-fields:%s" % shortfn(b.id), "`%s` also writes %s of the in-memory summary" % (shortfn(b.id), sorted(writes - al)), where=b.span)
    # reload on start
    wp = P.require(WT + "with_proxy::{closure#0}")
    sends = sites_containing(wp, "UnboundedSender", "::send")
    for bb in sends:
        d = og.show(arg_origin(ctx, wp, bb, 1))
        if truth_fact(ctx, wp, bb, "TowerStatus::is_temporary_unreachable") is True and "RevocationData::Stale" in d and "f:pending_appointments" in d:
            rr.ok("start-up: Stale(pending) sent for temporarily unreachable towers")
        else:
            rr.fail("startup:send", "start-up send is `%s` / not gated by is_temporary_unreachable" % d[:100], where=wp.line_of(bb))
    for sw, succ in switch_succ_with(ctx, wp, "truth", True, "TowerStatus::is_temporary_unreachable"):
        if always_reaches(wp, [succ], sends, lambda x: is_iter_next(wp, x)):
            rr.ok("start-up: every temporarily unreachable tower is queued")
        else:
            rr.fail("startup:not-queued", "a tower loaded with pending appointments is not handed to the retry manager at start-up", where=wp.line_of(sw))
    if not sends:
        # iterator form: `towers.iter().filter(|t| t.status.is_temporary_unreachable()).for_each(|t| send(Stale(pending)))`
        found = False
        for cid in P.family(wp.id):
            cb = P.bodies[cid]
            if cid == wp.id:
                continue
            for bb in sites_containing(cb, "UnboundedSender", "::send"):
                found = True
                d = og.show(arg_origin(ctx, cb, bb, 1))
                # the adaptor call in the parent that receives this closure, and the filter in front of it
                gate = False
                pb = P.bodies.get(cb.parent)
                for pbb, pt in (pb.calls() if pb else []):
                    for i in range(len(pt.get("args", []))):
                        a = arg_origin(ctx, pb, pbb, i)
                        if isinstance(a, tuple) and a and a[0] == "closure" and a[1] == cid and (call_target(pt) or "").endswith("::for_each"):
                            recv = og.strip(arg_origin(ctx, pb, pbb, 0))
                            for x in og.walk(recv):
                                if isinstance(x, tuple) and x and x[0] == "call" and x[1].endswith("::filter") and len(x[2]) == 2 and isinstance(x[2][1], tuple) and x[2][1][0] == "closure" and x[2][1][1] in P.bodies:
                                    fr = ctx.og.local(P.bodies[x[2][1][1]], 0)
                                    if isinstance(fr, tuple) and fr and fr[0] in ("call", "ret") and fr[1].endswith("TowerStatus::is_temporary_unreachable"):
                                        gate = True
                if gate and "RevocationData::Stale" in d and "f:pending_appointments" in d and always_reaches(cb, [0], [bb]):
                    rr.ok("start-up: Stale(pending) sent for temporarily unreachable towers (filter + for_each)")
                    rr.ok("start-up: every temporarily unreachable tower is queued (for_each visits every filtered item)")
                else:
                    rr.fail("startup:send", "start-up send is `%s` / not gated by is_temporary_unreachable" % d[:100], where=cb.line_of(bb))
        if not found:
            rr.fail("startup:no-send", "WTClient::with_proxy never feeds the retry manager", where=wp.span)
    # loader sibling agreement
    for ld, probe in ((PDBM + "load_towers", "exists_misbehaving_proof"), (PDBM + "load_tower_record", "load_misbehaving_proof")):
        b = P.require(ld)
        ws = []
        for bb in b.rpo():
            for x in b.blocks[bb]["s"]:
                if x["k"] == "assign" and len(x["d"]) > 1 and x["d"][-1] == "f:status":
                    v = ctx.og._rvalue(b, x["rv"], 0, ())
                    ws.append((bb, v[2] if v[0] == "agg" else og.show(v)[:30]))
        got = {}
        for bb, v in ws:
            if v == "Misbehaving":
                got[v] = (truth_fact(ctx, b, bb, probe) is True) or variant_fact(ctx, b, bb, "Some", probe)
            elif v == "TemporaryUnreachable":
                got[v] = truth_fact(ctx, b, bb, "is_empty") is False and ((truth_fact(ctx, b, bb, probe) is False) or variant_fact(ctx, b, bb, "None", probe))
            else:
                got[v] = False
        if got == {"Misbehaving": True, "TemporaryUnreachable": True}:
            rr.ok("%s: Misbehaving iff proof, else TemporaryUnreachable iff pending" % shortfn(ld), sample={"rule": "PL7", "loader": ld, "status writes": got})
        else:
            rr.fail("loader-status:%s" % shortfn(ld), "`%s` reconstructs the status as %s (expected Misbehaving iff a proof row exists, else TemporaryUnreachable iff pending non-empty)" % (shortfn(ld), got), where=b.span)
    rr.require_floor(24, "PL7 instances")
    return rr


def _pred_rows(ctx, fn):
    """rows (variant | tuple of variants | None, {field: bool}, result) of a `fn(&self) -> bool` over an enum, one per CFG path"""
    from .rulekit import enumerate_paths
    b = ctx.prog.bodies.get(fn)
    if b is None:
        return None
    rows = []
    try:
        paths = enumerate_paths(ctx, b, [0], budget=4000)
    except RuntimeError:
        return None
    for path, facts, at_ret in paths:
        if not at_ret:
            continue
        res = None
        for bb in path:
            for s_ in b.blocks[bb]["s"]:
                if s_["k"] == "assign" and s_["d"] == [0]:
                    t = ctx.og._rvalue(b, s_["rv"], 0, ())
                    res = t[1] if isinstance(t, tuple) and t and t[0] == "const" and isinstance(t[1], bool) else "?"
        if res in (None, "?"):
            return None
        v, fields = None, {}
        for f in facts:
            if f[0] == "variant":
                v = f[2]
            elif f[0] == "variant_in" and v is None:
                v = tuple(f[2])
            elif f[0] == "truth":
                sh = og.show(f[1])
                for k_ in ("f:0", "f:1", "f:2"):
                    if sh.endswith("." + k_):
                        fields[k_] = f[2]
        rows.append((v, fields, res))
    return rows


def rule_PL8(ctx, tier):
    rr = RuleResult("PL8", "retrier outcome handling: each outcome arm sets the documented tower / retrier status")
    P = ctx.prog
    b = P.require(START + "::{closure#0}")
    st_sites = sites(b, WT + "set_tower_status")
    rs_sites = sites(b, "watchtower_plugin::retrier::Retrier::set_status")
    want_tower = {"Reachable": ("Ok",), "SubscriptionError": ("Subscription",), "Unreachable": ()}
    seen = {}
    for bb in st_sites:
        v = arg_origin(ctx, b, bb, 2)
        name = v[2] if v[0] == "agg" else og.show(v)
        seen[name] = bb
        if name == "Reachable":
            ok = variant_fact(ctx, b, bb, "Ok", "retry_notify")
        elif name == "SubscriptionError":
            ok = variant_fact(ctx, b, bb, "Subscription")
        elif name == "Unreachable":
            ok = variant_fact(ctx, b, bb, "Err", "retry_notify")
        else:
            ok = False
        if ok:
            rr.ok("tower status %s on its arm" % name, sample={"rule": "PL8", "status": name})
        else:
            rr.fail("outcome-status:%s" % name, "Retrier::start sets the tower status to %s on an arm that does not correspond to that outcome" % name, where=b.line_of(bb))
    for need in ("Reachable", "SubscriptionError", "Unreachable"):
        if need not in seen:
            rr.fail("outcome-missing:%s" % need, "no retry outcome sets the tower status to %s" % need, where=b.span)
    rstat = {}
    for bb in rs_sites:
        v = arg_origin(ctx, b, bb, 1)
        name = v[2] if v[0] == "agg" else og.show(v)[:20]
        rstat[name] = bb
    if set(rstat) >= {"Stopped", "Failed", "Idle"}:
        rr.ok("retrier status Stopped / Failed / Idle all set")
    else:
        rr.fail("retrier-status:%s" % ",".join(sorted(rstat)), "Retrier::start sets retrier status only to %s" % sorted(rstat), where=b.span)
    if "Failed" in rstat and truth_fact(ctx, b, rstat["Failed"], "RetryError::is_permanent") is True:
        rr.ok("Failed only for permanent errors")
    else:
        rr.fail("failed-gate", "RetrierStatus::Failed is set without `e.is_permanent()`", where=b.span)
    if "Stopped" in rstat and variant_fact(ctx, b, rstat["Stopped"], "Ok", "retry_notify"):
        rr.ok("Stopped after success")
    # the task never ends with the retrier still marked Running: every feasible path from the give-up arm to the end of the
    # spawned task sets a retrier status.  Feasibility of a path is judged against the rows of RetryError::is_permanent
    # (read off its own MIR), because `if e.is_permanent()` and the `match e` that follows are correlated.
    from .rulekit import enumerate_paths
    rows = _pred_rows(ctx, "watchtower_plugin::retrier::RetryError::is_permanent")
    starts = [succ for sw, succ in switch_succ_with(ctx, b, "variant", "Err", "retry_notify")]
    if not rows or not starts:
        rr.anchor_missing("is_permanent rows / Err arm of retry_notify in Retrier::start")
    else:
        try:
            paths = enumerate_paths(ctx, b, starts)
        except RuntimeError as e:
            paths = None
            rr.fail("outcome-paths", "%s" % e, where=b.span)
        bad_classes = {}
        for path, facts, at_ret in paths or []:
            if not at_ret or set(path) & set(rs_sites):
                continue
            v, fields, perm = None, {}, None
            for f in facts:
                sh = og.show(f[1])
                if f[0] == "truth" and any(c.endswith("RetryError::is_permanent") for c in og.calls_in(f[1])):
                    perm = f[2]
                elif f[0] == "variant" and f[2] in ("Subscription", "Unreachable", "Misbehaving", "Abandoned"):
                    v = f[2]
                elif f[0] == "truth" and ".v:Subscription.f:1" in sh:
                    fields["f:1"] = f[2]
            cons = [r for r in rows if (v is None or r[0] is None or v == r[0] or (isinstance(r[0], tuple) and v in r[0])) and all(r[1].get(k_, val) == val for k_, val in fields.items())]
            if perm is not None and cons and all(r[2] != perm for r in cons):
                continue  # contradicts is_permanent's own definition: not a real path
            bad_classes[(v, tuple(sorted(fields.items())), perm)] = path
        if paths is not None and not bad_classes:
            rr.ok("every feasible give-up path ends with the retrier Failed or Idle (never still Running)", sample={"rule": "PL8", "is_permanent rows": [(r[0], r[1], r[2]) for r in rows][:6]})
        for (v, flds, perm), path in sorted(bad_classes.items(), key=str):
            rr.fail("task-ends-running:%s" % (v or "any"), "the retry task can end after `%s%s` (is_permanent = %s) without setting a retrier status: it stays `Running` for ever — no auto-retry, `retrytower` refused, new revocations queued to a dead task" % (
                v or "some error", "".join("(.., %s)" % val for _, val in flds), perm), where=b.line_of(path[-1]))
    # idle: pending cleared and status unreachable
    if "Idle" in rstat:
        clr = [x for x in sites_containing(b, "HashSet", "::clear") if x in b.reachable(rstat["Idle"])]
        if clr:
            rr.ok("Idle: in-memory pending cleared (data stays on disk)")
        else:
            rr.fail("idle-not-cleared", "idle retrier keeps its in-memory pending set", where=b.span)
    # before starting: Running + TemporaryUnreachable unless SubscriptionError
    s = P.require(START)
    okrun = any((arg_origin(ctx, s, bb, 1)[0] == "agg" and arg_origin(ctx, s, bb, 1)[2] == "Running") for bb in sites(s, "watchtower_plugin::retrier::Retrier::set_status"))
    if okrun:
        rr.ok("start marks the retrier Running")
    else:
        rr.fail("start-not-running", "Retrier::start does not mark the retrier Running before spawning", where=s.span)
    from .tables import enum_pred_table
    t = enum_pred_table(ctx, "watchtower_plugin::retrier::RetryError::is_permanent") or {}
    if t.get("Misbehaving") is True and t.get("Abandoned") is True and t.get("Unreachable") is False:
        rr.ok("is_permanent: Misbehaving, Abandoned permanent; Unreachable transient", sample={"rule": "PL8", "RetryError::is_permanent": t})
    else:
        rr.fail("is_permanent-table", "RetryError::is_permanent folds to %s" % t)
    rr.require_floor(7, "PL8 instances")
    reachable_only_with_nothing_pending(ctx, rr)
    return rr


# ------------------------------------------------------------------------------------------------------------------
# PT: named predicates of the client's state enums say what their name says
_PT_EXPLICIT = {
    "teos_common::net::AddressType::is_clearnet": {"IpV4"},
    "teos_common::net::AddressType::is_tor": {"TorV3"},
    "watchtower_plugin::net::http::RequestError::is_connection": {"ConnectionError"},
    "watchtower_plugin::retrier::RetrierStatus::failed": {"Failed"},
}


def _snake(name):
    import re
    return re.sub(r"(?<!^)(?=[A-Z])", "_", name).lower()


def rule_PT(ctx, tier):
    """The retry manager, the revocation hook and the transport pick their branch with `is_<variant>()` predicates of small state
    enums (RetrierStatus, RevocationData, SubscriptionError, RequestError, AddressType; TowerStatus is PL5's).  Every such predicate,
    folded over the variants of its enum by abstract evaluation, is true exactly for the variant it is named after (three predicates
    whose name is not a variant name have their row written out above).  Predicates with other names are not judged."""
    from .tables import enum_pred_table
    rr = RuleResult("PT", "state predicates `is_<variant>()` of the client enums are true exactly for the variant they name")
    P = ctx.prog
    for bid, b in sorted(P.bodies.items()):
        last = bid.split("::")[-1]
        if not (last.startswith("is_") or bid in _PT_EXPLICIT) or not bid.startswith(("watchtower_plugin::", "teos_common::net::")) or "::tests::" in bid or len(b.locals) < 2 or b.kind == "closure":
            continue
        if bid.startswith("watchtower_plugin::TowerStatus::"):
            continue
        t = enum_pred_table(ctx, bid)
        if t is None:
            continue
        exp = _PT_EXPLICIT.get(bid)
        if exp is None:
            exp = {v for v in t if _snake(v) == last[3:]}
            if len(exp) != 1:
                continue  # not named after a variant: nothing is promised by the name
        if any(v is None for v in t.values()):
            rr.fail("table-undecided:%s" % shortfn(bid), "cannot fold `%s` over the variants of its enum (%s)" % (bid, t), where=b.span)
            continue
        good = {v for v, val in t.items() if val}
        if good == exp:
            rr.ok("%s == %s" % (shortfn(bid), sorted(exp)), sample={"rule": "PT", "predicate": bid, "table": t})
        else:
            rr.fail("named-predicate:%s=%s" % (shortfn(bid), ",".join(sorted(good)) or "nothing"), "`%s` is true for %s, its name and its callers mean %s" % (shortfn(bid), sorted(good) or "no variant", sorted(exp)), where=b.span)
    # AddressType::get_type: an address is Tor exactly when it carries the `.onion:` marker — nothing else about the host part
    # decides it (the transport picks the SOCKS proxy on this answer: an onion address taken for clearnet is dialled directly and
    # never resolves, the tower looks unreachable for ever although it is up)
    gt = P.bodies.get("teos_common::net::AddressType::get_type")
    if gt is None:
        rr.anchor_missing("teos_common::net::AddressType::get_type")
    else:
        sites_ = {"TorV3": [], "IpV4": []}
        for bb in gt.rpo():
            for st_ in gt.blocks[bb]["s"]:
                if st_["k"] == "assign" and st_["rv"]["k"] == "agg" and st_["rv"].get("variant") in sites_ and str(st_["rv"].get("adt", "")).endswith("AddressType"):
                    sites_[st_["rv"]["variant"]].append(bb)
        bad = []
        for var, want in (("TorV3", True), ("IpV4", False)):
            for bb in sites_[var]:
                seen_marker = False
                for f in facts_at(ctx, gt, bb):
                    subj = og.strip(f[1])
                    is_marker_test = isinstance(subj, tuple) and subj and subj[0] == "call" and subj[1].split("::")[-1] in ("contains", "find", "rfind", "split_once", "rsplit_once") \
                        and any(isinstance(a_, tuple) and a_ and a_[0] == "const" and a_[1] == ".onion:" for a_ in map(og.strip, subj[2]))
                    if not is_marker_test:
                        bad.append((bb, "%s decided by `%s`" % (var, og.show(f[1])[:60])))
                        continue
                    val = f[2] if f[0] == "truth" else (f[2] == "Some")
                    if val == want:
                        seen_marker = True
                    else:
                        bad.append((bb, "%s answered when the marker test says %s" % (var, val)))
                if not seen_marker:
                    bad.append((bb, "%s answered without testing for `.onion:`" % var))
        if sites_["TorV3"] and sites_["IpV4"] and not bad:
            rr.ok("get_type: TorV3 iff the address contains `.onion:`", sample={"rule": "PT", "function": "AddressType::get_type", "decision": "contains(\".onion:\")"})
        else:
            rr.fail("address-classification", "AddressType::get_type does not answer TorV3 exactly for the addresses that contain `.onion:` (%s): onion hosts with another shape (a subdomain label, a future key length) are dialled as clearnet and can never be reached" % ("; ".join(x[1] for x in bad[:3]) or "TorV3 / IpV4 sites not found"), where=gt.line_of(bad[0][0]) if bad else gt.span)
    rr.require_floor(9, "named predicates folded")
    return rr


# ------------------------------------------------------------------------------------------------------------------ PL9
def rule_PL9(ctx, tier):
    """every request the client makes to a tower is bounded in time: a tower that takes the connection and never answers
    (frozen host, dropped packets, a body trickled in) must end up as a connection error like any other outage, or the
    retrier stays Running for ever (never Idle, never Unreachable, `retrytower` refused) and the revocation hook never returns"""
    rr = RuleResult("PL9", "every HTTP request to a tower carries a deadline (client or request timeout on every path to send)")
    P = ctx.prog
    rq = P.bodies.get("watchtower_plugin::net::http::request::{closure#0}")
    if rq is None:
        rr.anchor_missing("watchtower_plugin::net::http::request")
        return rr
    sends = sites(rq, "reqwest::RequestBuilder::send")
    deadlines = [bb for bb, t in rq.calls() if (call_target(t) or "") in ("reqwest::ClientBuilder::timeout", "reqwest::RequestBuilder::timeout", "reqwest::ClientBuilder::read_timeout")]
    # a wrapper future: tokio::time::timeout(.., send()) around the await
    wrapped = [bb for bb, t in rq.calls() if (call_target(t) or "").endswith("tokio::time::timeout")]
    if not sends:
        rr.anchor_missing("reqwest::RequestBuilder::send in net::http::request")
        return rr
    for sbb in sends:
        seen, st, reach = set(), [0], False
        while st:
            x = st.pop()
            if x in seen:
                continue
            seen.add(x)
            if x == sbb:
                reach = True
                break
            if x in deadlines:
                continue
            st.extend(rq.succ(x))
        if not reach or wrapped:
            rr.ok("request: every path to send() sets a timeout", sample={"rule": "PL9", "send": rq.line_of(sbb), "deadline sites": len(deadlines) + len(wrapped)})
        else:
            rr.fail("request-without-deadline", "`net::http::request` can reach `RequestBuilder::send` with a client that has no timeout (`reqwest::Client::new()` / a builder without `.timeout(..)`): a tower that accepts the connection and never answers keeps `Retrier::run` and the commitment_revocation hook waiting for ever — the retrier stays Running, the tower never reads unreachable, `retrytower` is refused and the towers after it in the hook's loop get nothing", where=rq.line_of(sbb))
    # the error arm of the await classifies a timeout as a connection error (that is what makes the retrier back off)
    cls = [cid for cid in P.family(rq.id) if cid != rq.id and sites(P.bodies[cid], "reqwest::Error::is_timeout")]
    if cls:
        rr.ok("a timed-out request is classified with the connection errors")
    else:
        rr.fail("timeout-not-classified", "no closure of `net::http::request` looks at `reqwest::Error::is_timeout`: a request that ran into its deadline is not told apart from a malformed exchange", where=rq.span)
    return rr


def reachable_only_with_nothing_pending(ctx, rr):
    """C13 'shown reachable again with nothing pending': the retry task flags the tower Reachable only on a path where the
    pending appointments of the tower, as the database holds them at that moment and under the state lock, were found empty.
    What the retrier was told to deliver is not all there may be: the hook stores without telling it while the tower reads
    unreachable, and a retrier created from one message knows one locator."""
    P = ctx.prog
    n = 0
    for cid in P.family(START):
        cb = P.bodies[cid]
        for bb in sites(cb, WT + "set_tower_status"):
            if "TowerStatus::Reachable" not in og.show(arg_origin(ctx, cb, bb, 2)):
                continue
            n += 1
            ok = False
            for f in facts_at(ctx, cb, bb):
                if f[0] == "truth" and f[2] is True and has_call(f[1], "is_empty") and has_call(f[1], "DBM::load_appointment_locators") and "Pending" in og.show(f[1]):
                    ok = True
            if ok:
                rr.ok("retry task: Reachable only when the database holds nothing pending for the tower")
            else:
                rr.fail("reachable-with-pending", "the retry task flags the tower Reachable after delivering what it had been given, without looking at what the database holds as pending for that tower: an appointment stored by the hook while the idle retrier was being woken up (a full polling round), or older ones when the retrier was created from a single message, stays pending with no retrier, `retrytower` refused and the tower shown reachable", where=cb.line_of(bb))
    if n == 0:
        rr.fail("reachable-site-missing", "the retry task never flags the tower Reachable", where=P.require(START).span)
