"""E1: resolved call graph over the workspace bodies, with callback summaries for external generics."""
from collections import defaultdict

from .facts import call_names, call_target

# External generic code that calls back into workspace trait impls / closures.  Each entry:
# callee path (as printed by the driver) -> list of workspace body ids it may call (DESIGN 2.2, E1).
LISTEN_IMPLS = [
    "<teos::gatekeeper::Gatekeeper as lightning::chain::Listen>::filtered_block_connected",
    "<teos::gatekeeper::Gatekeeper as lightning::chain::Listen>::block_disconnected",
    "<teos::watcher::Watcher as lightning::chain::Listen>::filtered_block_connected",
    "<teos::watcher::Watcher as lightning::chain::Listen>::block_disconnected",
    "<teos::responder::Responder as lightning::chain::Listen>::filtered_block_connected",
    "<teos::responder::Responder as lightning::chain::Listen>::block_disconnected",
]
CALLBACK_SUMMARIES = {
    # SpvClient::poll_best_tip -> ChainNotifier -> Listen::{filtered_block_connected, block_disconnected}
    "lightning_block_sync::SpvClient::<'a, P, C, L>::poll_best_tip": LISTEN_IMPLS,
}

SPAWN_FUNCS = {
    "tokio::spawn", "tokio::task::spawn", "std::thread::spawn", "tokio::task::spawn_blocking",
}


class CallGraph:
    def __init__(self, prog):
        self.prog = prog
        self.out = defaultdict(list)   # body id -> [(callee body id, bb or None, kind)]
        self.inn = defaultdict(list)
        self.spawned = defaultdict(list)  # body id -> closure/coroutine ids handed to spawn (new thread roots)
        self.unresolved = []
        self._build()

    def _build(self):
        P = self.prog
        for b in P.bodies.values():
            # closures/coroutines built in this body
            built = {}  # local -> def
            for i in b.rpo():
                for s in b.blocks[i]["s"]:
                    if s["k"] == "assign" and s["rv"]["k"] == "agg" and s["rv"]["agg"] in ("closure", "coroutine", "coroutine_closure"):
                        d = s["rv"]["def"]
                        if len(s["d"]) == 1:
                            built[s["d"][0]] = d
                        built.setdefault(("any", d), d)
            spawned_here = set()
            for bb, t in b.calls():
                tgt = call_target(t)
                names = call_names(t)
                if names & SPAWN_FUNCS:
                    # which closure/coroutine (or async fn call result) is spawned?
                    for a in t["args"]:
                        pl = a.get("m") or a.get("c")
                        if pl and len(pl) == 1 and pl[0] in built:
                            spawned_here.add(built[pl[0]])
                            self.spawned[b.id].append(built[pl[0]])
                    continue
                hit = False
                for n in names:
                    if n in P.bodies:
                        self._edge(b.id, n, bb, "call")
                        hit = True
                        break
                if not hit:
                    for n in names:
                        if n in CALLBACK_SUMMARIES:
                            for c in CALLBACK_SUMMARIES[n]:
                                if c in P.bodies:
                                    self._edge(b.id, c, bb, "callback")
                            hit = True
                resolved_elsewhere = t.get("rcallee") and t.get("rcallee") != t.get("callee") and t.get("rkind") != "virtual"
                if not hit and t.get("trait") and tgt and not resolved_elsewhere:
                    # class-hierarchy fallback: every workspace impl of that trait method
                    meth = tgt.split("::")[-1]
                    for c in self._impls().get((t["trait"], meth), []):
                        self._edge(b.id, c, bb, "cha")
                        hit = True
                if not hit and tgt and tgt.split("::")[0].lstrip("<") in P.crates and not t.get("x"):
                    self.unresolved.append((b.id, bb, tgt))
            for key, d in built.items():
                if isinstance(key, tuple) and d not in spawned_here and d in P.bodies:
                    self._edge(b.id, d, None, "constructs")

    def _impls(self):
        if not hasattr(self, "_impl_index"):
            idx = defaultdict(list)
            for b in self.prog.bodies.values():
                if b.impl_trait and b.kind == "method":
                    idx[(b.impl_trait, b.id.split("::")[-1])].append(b.id)
            self._impl_index = idx
        return self._impl_index

    def _edge(self, a, b, bb, kind):
        self.out[a].append((b, bb, kind))
        self.inn[b].append((a, bb, kind))

    def callees(self, bid):
        return self.out.get(bid, [])

    def reach(self, roots, stop=()):
        seen, st = set(), list(roots)
        while st:
            x = st.pop()
            if x in seen or x in stop:
                continue
            seen.add(x)
            for c, _, _ in self.out.get(x, []):
                st.append(c)
        return seen

    def path(self, src, dst):
        """shortest call chain src -> dst (list of body ids) or None"""
        from collections import deque
        prev = {src: None}
        dq = deque([src])
        while dq:
            x = dq.popleft()
            if x == dst:
                out = []
                while x is not None:
                    out.append(x)
                    x = prev[x]
                return list(reversed(out))
            for c, _, _ in self.out.get(x, []):
                if c not in prev:
                    prev[c] = x
                    dq.append(c)
        return None
