"""ED: the outcome of a durable write is never thrown away.

Every call from outside the DBM modules to a DBM method that returns `Result` must have its result consumed by something that
looks at it: unwrap/expect, `?`, a match / if-let on it, `is_ok()`/`is_err()` feeding a branch, or being returned to the caller.
`.ok();`, `let _ = ..`, or an unused binding discard the failure: the caller goes on as if the row were there (e.g. hands a
breach to the Responder for an appointment whose INSERT was refused by the users foreign key)."""
from .facts import call_target
from .framework import RuleResult
from .rulekit import shortfn

LOOKS = ("unwrap", "expect", "unwrap_or_else", "unwrap_or", "unwrap_or_default", "expect_err", "unwrap_err", "branch", "and_then", "or_else", "map_or", "map_or_else", "is_ok_and", "is_err_and", "unwrap_unchecked")
PASS_ON = ("map_err", "map", "ok", "err", "as_ref", "as_mut", "inspect_err", "inspect", "clone", "into", "from", "from_residual")
TESTS = ("is_ok", "is_err", "is_some", "is_none")


def _mentions(o, l):
    if isinstance(o, dict):
        for k, v in o.items():
            if k in ("c", "m", "p") and isinstance(v, list) and v and v[0] == l:
                return True
            if _mentions(v, l):
                return True
    elif isinstance(o, list):
        return any(_mentions(x, l) for x in o)
    return False


def _looked_at(b, l, depth=0, seen=None):
    """is the value in local l examined (or handed back to the caller) somewhere?"""
    seen = seen or set()
    if l in seen or depth > 6:
        return False
    seen.add(l)
    if l == 0:
        return True
    for bb in b.rpo():
        for s in b.blocks[bb]["s"]:
            if s.get("k") != "assign" or not _mentions(s["rv"], l):
                continue
            k = s["rv"].get("k")
            if k == "discr":
                return True
            d = s["d"]
            if k in ("ref", "use", "cast", "agg", "addr") and (d[0] == 0 or _looked_at(b, d[0], depth + 1, seen)):
                return True
        t = b.term(bb)
        if t["k"] == "switch" and _mentions(t.get("d"), l):
            return True
        if t["k"] == "call":
            for a in t.get("args", []):
                if not _mentions(a, l):
                    continue
                last = (call_target(t) or "").split("::")[-1]
                dest = t.get("dest") or []
                if last in LOOKS:
                    return True
                if last in PASS_ON or last in TESTS:
                    if dest and (dest[0] == 0 or _looked_at(b, dest[0], depth + 1, seen)):
                        return True
                elif last not in ("drop", "drop_in_place", "forget"):
                    return True  # handed to some other function: not ours to judge
    return False


def rule_ED(ctx, tier):
    rr = RuleResult("ED", "the result of a database write/read that can fail is never discarded by its caller")
    P = ctx.prog
    n = 0
    for bid, b in P.bodies.items():
        if "::dbm::" in bid or "::tests::" in bid or "test_utils" in bid:
            continue
        for bb, t in b.calls():
            tg = call_target(t) or ""
            if not (("teos::dbm::DBM::" in tg or "watchtower_plugin::dbm::DBM::" in tg) and tg in P.bodies and P.bodies[tg].locals[0]["ty"].startswith("std::result::Result<")):
                continue
            n += 1
            d = t.get("dest") or []
            if d and (d[0] == 0 or len(d) > 1 or _looked_at(b, d[0])):
                rr.ok("%s <- %s: result examined or returned" % (shortfn(bid), shortfn(tg)), sample={"rule": "ED", "caller": bid, "callee": tg} if n <= 2 else None)
            else:
                rr.fail("db-result-discarded:%s<-%s" % (shortfn(bid), tg.split("::")[-1]), "`%s` throws away the Result of `%s` (`.ok()`, `let _ =` or an unused value): when the statement fails — a foreign key, a constraint, I/O — the caller carries on as if the data were stored" % (shortfn(bid), shortfn(tg)), where=b.line_of(bb))
    rr.require_floor(18, "ED call sites")
    return rr
