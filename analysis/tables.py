"""E5 (part): finite tables by abstract evaluation of small predicate functions over an enum's variants.

`enum_pred_table(ctx, fn)` evaluates `fn(&self) -> bool` once per variant of the enum `self` refers to,
folding constants through the MIR (discriminant switches, `==` against unit variants, calls to sibling
predicates).  Anything it cannot fold yields None for that variant (callers fail closed)."""
from .facts import call_names, call_target

UNKNOWN = ("?",)


def _self_adt(ctx, body):
    ty = body.locals[1]["ty"].replace("&", "").replace("mut ", "").strip()
    ty = ty.split("<")[0]
    return ctx.prog.adts.get(ty)


def enum_pred_table(ctx, fn, depth=0):
    b = ctx.prog.bodies.get(fn)
    if b is None:
        return None
    adt = _self_adt(ctx, b)
    if adt is None or adt["kind"] != "enum":
        return None
    out = {}
    for v in adt["variants"]:
        out[v["name"]] = _eval(ctx, b, adt, v["name"], depth)
    return out


def eval_fn(ctx, fn, oracle):
    """abstractly evaluate a small function; `oracle(names, args, body, term)` supplies call results
    (return None for 'unknown').  Result: the folded value of the return place or None."""
    b = ctx.prog.bodies.get(fn)
    if b is None:
        return None
    return _eval(ctx, b, None, None, 0, oracle=oracle, raw=True)


def _eval(ctx, b, adt, variant, depth, oracle=None, raw=False):
    env = {1: ("self",)}
    bb = 0
    steps = 0
    while steps < 200:
        steps += 1
        for s in b.blocks[bb]["s"]:
            if s["k"] != "assign" or len(s["d"]) != 1:
                continue
            env[s["d"][0]] = _rv(ctx, b, s["rv"], env, adt, variant)
        t = b.term(bb)
        k = t["k"]
        if k == "return":
            v = env.get(0, UNKNOWN)
            if raw:
                return v if v != UNKNOWN else None
            return v[1] if v[0] == "bool" else None
        if k == "goto":
            bb = t["t"]
        elif k == "switch":
            d = _op(t["d"], env)
            if d[0] == "bool":
                val = 1 if d[1] else 0
            elif d[0] == "int":
                val = d[1]
            else:
                return None
            nxt = t["otherwise"]
            for vv, tg in t["targets"]:
                if vv == val:
                    nxt = tg
            bb = nxt
        elif k == "call":
            names = call_names(t)
            args = [_op(a, env) for a in t["args"]]
            res = UNKNOWN
            if oracle is not None:
                r = oracle(names, args, b, t)
                if r is not None:
                    res = r
            if res != UNKNOWN:
                pass
            elif any(n.endswith(("::eq",)) and "PartialEq" in n for n in names) and len(args) == 2:
                a, c = args
                if a[0] == "self" and c[0] == "variant":
                    res = ("bool", c[1] == variant)
                elif c[0] == "self" and a[0] == "variant":
                    res = ("bool", a[1] == variant)
            elif any(n.endswith(("::ne",)) and "PartialEq" in n for n in names) and len(args) == 2:
                a, c = args
                if a[0] == "self" and c[0] == "variant":
                    res = ("bool", c[1] != variant)
            elif any(n.endswith(("Deref>::deref", "Clone>::clone")) for n in names) and args:
                res = args[0]
            else:
                for n in names:
                    cb = ctx.prog.bodies.get(n)
                    if cb is not None and cb.argc == 1 and args and args[0][0] == "self" and depth < 4:
                        sub = enum_pred_table(ctx, n, depth + 1)
                        if sub and sub.get(variant) is not None:
                            res = ("bool", sub[variant])
            if len(t["dest"]) == 1:
                env[t["dest"][0]] = res
            if t.get("t") is None:
                return None
            bb = t["t"]
        elif k in ("drop", "assert"):
            bb = t["t"]
        else:
            return None
    return None


def _op(o, env):
    if "k" in o:
        k = o["k"]
        if "bool" in k:
            return ("bool", k["bool"])
        if "int" in k:
            return ("int", k["int"])
        return UNKNOWN
    pl = o.get("c") or o.get("m")
    if pl is None:
        return UNKNOWN
    base = env.get(pl[0], UNKNOWN)
    proj = [e for e in pl[1:] if e != "*"]
    for e in proj:
        if base[0] == "tuple" and e.startswith("f:") and e[2:].isdigit() and int(e[2:]) < len(base[1]):
            base = base[1][int(e[2:])]
        elif base[0] == "self":
            base = ("self",) + base[1:] + (e,)
        else:
            return UNKNOWN
    return base


def _rv(ctx, b, rv, env, adt, variant):
    k = rv["k"]
    if k == "use":
        return _op(rv["o"], env)
    if k == "ref":
        pl = rv["p"]
        return _op({"c": pl}, env)
    if k == "discr":
        pl = rv["p"]
        base = env.get(pl[0], UNKNOWN)
        if base[0] == "self" and all(e == "*" for e in pl[1:]):
            for dv, n in rv.get("variants", []):
                if n == variant:
                    return ("int", dv)
        return UNKNOWN
    if k == "agg" and rv.get("agg") == "adt" and not rv["ops"]:
        return ("variant", rv["variant"])
    if k == "agg" and rv.get("agg") == "tuple":
        return ("tuple", [_op(o, env) for o in rv["ops"]])
    if k == "un" and rv["op"] == "Not":
        a = _op(rv["a"], env)
        if a[0] == "bool":
            return ("bool", not a[1])
    if k == "bin" and rv["op"] in ("BitOr", "BitAnd", "Eq", "Ne"):
        a, c = _op(rv["a"], env), _op(rv["b"], env)
        if a[0] == "bool" and c[0] == "bool":
            return ("bool", {"BitOr": a[1] or c[1], "BitAnd": a[1] and c[1], "Eq": a[1] == c[1], "Ne": a[1] != c[1]}[rv["op"]])
        if a[0] == "int" and c[0] == "int" and rv["op"] in ("Eq", "Ne"):
            return ("bool", (a[1] == c[1]) == (rv["op"] == "Eq"))
    return UNKNOWN
