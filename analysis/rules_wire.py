"""Wire and HTTP rules: WT1 endpoint/type agreement, WT2 twin definitions and tables, WT3 signed layouts,
HT1 code-table totality and router shape (C15)."""
import re

from .facts import call_names, call_target
from .framework import RuleResult
from . import origin as og
from .rulekit import sites, sites_containing, arg_origin, has_call, find_calls, const_of, variant_fact, truth_fact, facts_at, shortfn

ROUTER = "teos::api::http::router"
ENDPOINTS = ["Register", "AddAppointment", "GetAppointment", "GetSubscriptionInfo"]
PUB = "teos::api::internal::<impl teos::protos::public_tower_services_server::PublicTowerServices for std::sync::Arc<teos::api::internal::InternalAPI>>::"


def _endpoint_of(term):
    for t in og.walk(term):
        if isinstance(t, tuple) and t and t[0] == "agg" and t[1].endswith("net::http::Endpoint"):
            return t[2]
    return None


def _tower_routes(ctx):
    """endpoint -> dict(req type, handler fn, body limit const)"""
    b = ctx.prog.require(ROUTER)
    routes, cur = {}, None
    for bb in b.rpo():
        t = b.term(bb)
        if t["k"] != "call":
            continue
        tgt = call_target(t) or ""
        if tgt.endswith("warp::filters::path::path") or "filters::path::path" in tgt:
            cur = _endpoint_of(arg_origin(ctx, b, bb, 0))
            routes.setdefault(cur, {"bb": bb})
        elif "body::content_length_limit" in tgt and cur:
            k = const_of(arg_origin(ctx, b, bb, 0))
            routes[cur]["limit"] = k
        elif "filters::body::json" in tgt and cur:
            routes[cur]["req"] = t["targs"][0]
        elif tgt.endswith("Filter::and_then") and cur:
            h = arg_origin(ctx, b, bb, 1)
            routes[cur]["handler"] = h[1] if h[0] == "fn" else None
            m = "post" if "method::post" in og.show(arg_origin(ctx, b, bb, 0)) else "get" if "method::get" in og.show(arg_origin(ctx, b, bb, 0)) else "?"
            routes[cur]["method"] = m
    return b, routes


def _client_calls(ctx):
    """endpoint -> dict(req type, resp type, where)"""
    P = ctx.prog
    out = {}
    for b in P.bodies.values():
        if not b.id.startswith(("watchtower_plugin", "watchtower_client")):
            continue
        for bb, t in b.calls():
            tgt = call_target(t) or ""
            if tgt.endswith("net::http::process_post_response"):
                a = arg_origin(ctx, b, bb, 0)
                pr = [x for x in find_calls(a, "net::http::post_request") if x[1].endswith("net::http::post_request")]
                if not pr:
                    continue
                ep = _endpoint_of(pr[0])
                # request type: the post_request call site
                site = pr[0][3]
                pt = P.bodies[site[0]].term(P.bodies[site[0]].block_of_site(site[1]))
                out[ep] = {"req": pt["targs"][0].lstrip("&"), "resp": t["targs"][0], "body": b.id, "bb": bb}
    return out


def rule_WT1(ctx, tier):
    rr = RuleResult("WT1", "per endpoint, client and tower (de)serialise the same message types")
    P = ctx.prog
    rb, routes = _tower_routes(ctx)
    cl = _client_calls(ctx)
    for ep in ENDPOINTS:
        r, c = routes.get(ep), cl.get(ep)
        if not r or "req" not in r or not r.get("handler"):
            rr.fail("no-route:%s" % ep, "the tower router has no JSON POST route for Endpoint::%s" % ep, where=rb.span)
            continue
        if not c:
            rr.fail("no-client-call:%s" % ep, "the client never posts to Endpoint::%s" % ep)
            continue
        if r["req"] == c["req"]:
            rr.ok("%s: request type %s on both sides" % (ep, r["req"].split("::")[-1]), sample={"rule": "WT1", "endpoint": ep, "client serialises": c["req"], "tower deserialises": r["req"]})
        else:
            rr.fail("request-type:%s" % ep, "Endpoint::%s: the client serialises `%s` but the tower route deserialises `%s`" % (ep, c["req"], r["req"]), where=P.bodies[c["body"]].line_of(c["bb"]))
        h = P.bodies.get(r["handler"] + "::{closure#0}")
        if h is None:
            rr.anchor_missing(r["handler"])
            continue
        pg = sites(h, "teos::api::http::parse_grpc_response")
        if len(pg) != 1:
            rr.fail("handler-shape:%s" % ep, "http handler for %s has %d parse_grpc_response calls" % (ep, len(pg)), where=h.span)
            continue
        tresp = h.term(pg[0])["targs"][0]
        cresp = c["resp"]
        m = re.match(r"watchtower_plugin::net::http::ApiResponse<(.*)>$", cresp)
        inner = m.group(1) if m else cresp
        if inner == tresp:
            rr.ok("%s: response type %s on both sides" % (ep, tresp.split("::")[-1]), sample={"rule": "WT1", "endpoint": ep, "tower serialises": tresp, "client deserialises": cresp})
        else:
            rr.fail("response-type:%s" % ep, "Endpoint::%s: the tower replies with `%s` but the client parses `%s`" % (ep, tresp, cresp), where=P.bodies[c["body"]].line_of(c["bb"]))
        # the handler forwards to the gRPC method of the same name, whose response type it is
        grpc = sites_containing(h, "PublicTowerServicesClient")
        meth = {"Register": "register", "AddAppointment": "add_appointment", "GetAppointment": "get_appointment", "GetSubscriptionInfo": "get_subscription_info"}[ep]
        if any((call_target(h.term(g)) or "").endswith("::" + meth) for g in grpc) and r["handler"].endswith("::" + meth):
            rr.ok("%s: route -> http::%s -> grpc %s" % (ep, meth, meth))
        else:
            rr.fail("route-wiring:%s" % ep, "Endpoint::%s is routed to `%s`, which does not forward to gRPC `%s`" % (ep, r["handler"], meth), where=h.span)
    # Endpoint Display strings are distinct and path() prefixes '/'
    ed = P.require("<teos_common::net::http::Endpoint as std::fmt::Display>::fmt")
    strs = []
    for bb in ed.rpo():
        for s in ed.blocks[bb]["s"]:
            if s["k"] == "assign" and s["rv"]["k"] == "use" and "k" in s["rv"]["o"] and "str" in s["rv"]["o"]["k"]:
                strs.append(s["rv"]["o"]["k"]["str"])
    if len(set(strs)) == 5 and len(strs) == 5:
        rr.ok("Endpoint paths distinct: %s" % sorted(strs), nontrivial=False)
    else:
        rr.fail("endpoint-strings", "Endpoint::fmt yields %s" % strs, where=ed.span)
    # ... and the parsing step takes whatever arrived: process_post_response hands the response to `json()` without looking at its
    # status, headers or length first (replies are not bounded by any request limit: get_subscription_info lists every locator)
    for fid in [x for x in P.bodies if x.startswith("watchtower_plugin::net::http::process_post_response")]:
        fb_ = P.bodies[fid]
        insp = [call_target(t) for bb, t in fb_.calls() if (call_target(t) or "").startswith("reqwest::Response::") and (call_target(t) or "").split("::")[-1] in ("status", "error_for_status", "error_for_status_ref", "headers", "content_length")]
        if insp:
            rr.fail("response-filtered-before-parsing:process_post_response", "`process_post_response` looks at `%s` of a response that did arrive and can turn it into an error without parsing the body: a legitimate reply (a long locator list, the tower's own error object) never reaches the caller" % ", ".join(sorted({shortfn(x) for x in insp})), where=fb_.span)
        elif any((call_target(t) or "").endswith("reqwest::Response::json") for bb, t in fb_.calls()):
            rr.ok("process_post_response parses the body of whatever arrived")
    # ... and what it parses INTO has room for the tower's error object: every endpoint answers either its reply or
    # `{"error": .., "error_code": ..}`; a caller that parses straight into the reply type turns a well-formed error into
    # "missing field" and loses the tower's message and code (subscription expired, slots exhausted, service unavailable)
    n_parse = 0
    for bid, b_ in P.bodies.items():
        if not bid.startswith(("watchtower_plugin::", "watchtower_client::")) or "::tests::" in bid:
            continue
        for bb, t in b_.calls():
            if (call_target(t) or "").endswith("net::http::process_post_response"):
                n_parse += 1
                ta = (t.get("targs") or [""])[0]
                who = shortfn(bid.split("::{closure")[0])
                if "ApiResponse<" in ta:
                    rr.ok("%s parses the reply as ApiResponse<..>" % who)
                else:
                    rr.fail("error-reply-unparsable:%s" % who, "`%s` parses the tower's answer straight into `%s`: the tower's error object (`error`, `error_code`) does not fit it, so a documented error reply becomes a DeserializeError and its code is lost; the other endpoints parse `ApiResponse<T>`" % (who, ta.split("::")[-1]), where=b_.line_of(bb))
    if n_parse < 4:
        rr.fail("parse-sites=%d" % n_parse, "expected the four endpoint callers to go through process_post_response")
    rr.require_floor(13, "WT1 instances")
    # whatever the tower answered reaches the parser: once `send()` succeeded, `request` hands the response on as it is — the
    # HTTP status is advisory, the JSON body (ApiError / reply) is the answer, also for the tower's own 503
    rq = P.bodies.get("watchtower_plugin::net::http::request::{closure#0}")
    if rq is None:
        rr.anchor_missing("watchtower_plugin::net::http::request")
    else:
        before = ctx.pf.called_before(rq)
        late = []
        for bb in rq.rpo():
            for s_ in rq.blocks[bb]["s"]:
                if s_["k"] == "assign" and s_["rv"]["k"] == "agg" and s_["rv"].get("adt", "").endswith("net::http::RequestError") and any(n.endswith("RequestBuilder::send") for n in before.get(bb, set())):
                    late.append(bb)
        inspects = [call_target(t) for bb, t in rq.calls() if (call_target(t) or "").startswith("reqwest::Response::") and (call_target(t) or "").split("::")[-1] in ("status", "error_for_status", "error_for_status_ref", "headers", "content_length")]
        if not late and not inspects:
            rr.ok("client: a response that arrived is returned as it is (no status-based shortcut before parsing)")
        else:
            rr.fail("response-filtered-before-parsing", "`net::http::request` turns a response that did arrive into a RequestError (%s) before its body is parsed: the tower's own error object — e.g. 503 {service unavailable, code 32} — never reaches the client's logic" % (", ".join(sorted({shortfn(x) for x in inspects})) or "error built after send()"), where=rq.line_of((late or [0])[0]))
    return rr


def _display_table(ctx, fn):
    """variant -> literal for `match self { V => "lit" }` Display impls"""
    b = ctx.prog.bodies.get(fn)
    if b is None:
        return None
    out = {}
    for sw in b.rpo():
        if b.term(sw)["k"] != "switch":
            continue
        for succ, facts in ctx.pf.switch_facts(b, sw).items():
            for f in facts:
                if f[0] == "variant":
                    lit = None
                    for x in b.reachable(succ, stop=lambda y: len(b.preds().get(y, [])) > 1 and y != succ):
                        for s in b.blocks[x]["s"]:
                            if s["k"] == "assign" and s["rv"]["k"] == "use" and "k" in s["rv"]["o"] and "str" in s["rv"]["o"]["k"]:
                                lit = s["rv"]["o"]["k"]["str"]
                    if lit is not None:
                        out[f[2]] = lit
    return out


def _fromstr_table(ctx, fn):
    """literal -> variant for `match s { "lit" => Ok(V) }` FromStr impls (string equality chains)"""
    b = ctx.prog.bodies.get(fn)
    if b is None:
        return None
    out = {}
    for bb, t in b.calls():
        if any(n.endswith("::eq") for n in call_names(t)) and len(t["args"]) == 2:
            lits = [const_of(arg_origin(ctx, b, bb, i)) for i in (0, 1)]
            lit = next((l[0] for l in lits if l and isinstance(l[0], str)), None)
            if lit is None:
                continue
            # true edge
            nxt = b.succ(bb)
            if not nxt or b.term(nxt[0])["k"] != "switch":
                continue
            sf = ctx.pf.switch_facts(b, nxt[0])
            for succ, facts in sf.items():
                if any(f[0] == "truth" and f[2] is True for f in facts):
                    for x in b.reachable(succ, stop=lambda y: len(b.preds().get(y, [])) > 1 and y != succ):
                        for s in b.blocks[x]["s"]:
                            if s["k"] == "assign" and s["rv"]["k"] == "agg" and s["rv"]["agg"] == "adt" and not s["rv"]["ops"] and s["rv"]["variant"] not in ("Ok", "Err"):
                                out[lit] = s["rv"]["variant"]
    return out


IDENTIFIER_DISPLAYS = (
    # (type, Display impl, byte length)
    ("Locator", "<teos_common::appointment::Locator as std::fmt::Display>::fmt", 16),
    ("UUID", "<teos::extended_appointment::UUID as std::fmt::Display>::fmt", 20),
    ("UserId", "<teos_common::UserId as std::fmt::Display>::fmt", 33),
)
_WHOLE_VALUE = ("to_vec", "serialize", "as_slice", "as_ref", "to_owned", "hex::encode", "to_lower_hex_string", "to_hex")


def _body_strings(b):
    out = []

    def walk(o):
        if isinstance(o, dict):
            for k_ in ("str", "bytes"):
                if k_ in o:
                    out.append(o[k_])
            for v in o.values():
                walk(v)
        elif isinstance(o, list):
            for v in o:
                walk(v)
    walk(b.blocks)
    return out


def identifier_text_forms(ctx, rr, only=None):
    """the text form of a fixed-length identifier is the lowercase hex of ALL its bytes (two digits per byte): it is
    part of a signed message (`get appointment <locator>`), of URLs, of JSON keys and of what from_hex / FromStr parse
    back.  Accepted: Display formats hex::encode(<the whole value>), or hands over to the Display of the wrapped value,
    or formats an integer of the identifier's size with `{:0<2n>x}`."""
    P = ctx.prog
    for ty, name, nbytes in IDENTIFIER_DISPLAYS:
        if only and ty not in only:
            continue
        b = P.bodies.get(name)
        if b is None:
            rr.anchor_missing(name)
            continue
        args = sites_containing(b, "Argument", "::new_")
        direct = [bb for bb in sites_containing(b, "Formatter", "::write_str") + sites_containing(b, "Formatter", "::pad")] if not args else []
        if len(direct) == 1:
            # `f.write_str(&text)`: the text handed over is the whole output
            a = arg_origin(ctx, b, direct[0], 1)
            calls = list(og.calls_in(a))
            if ("param", b.id, 1) in list(og.walk(a)) and calls and all(any(w in c for w in _WHOLE_VALUE + ("deref", "as_str", "to_string")) for c in calls) and any("hex::encode" in c or "to_lower_hex_string" in c or "to_hex" in c for c in calls):
                rr.ok("%s: text form = hex of the whole value" % ty, sample={"rule": rr.rule, "type": ty, "written": og.show(a)[:160]})
            else:
                rr.fail("identifier-text-form:%s" % ty, "Display of %s writes `%s`, which is not the hex encoding of all its %d bytes. The text is what `get appointment <locator>` is signed over, what URLs / JSON carry and what from_hex parses back" % (ty, og.show(a)[:120], nbytes), where=b.span)
            continue
        if len(args) != 1:
            rr.fail("identifier-text-form:%s" % ty, "Display of %s formats %d values; its text form is one hex string of %d digits" % (ty, len(args), 2 * nbytes), where=b.span)
            continue
        kind = (call_target(b.term(args[0])) or "").split("::")[-1]
        a = arg_origin(ctx, b, args[0], 0)
        calls = list(og.calls_in(a))
        whole = all(any(w in c for w in _WHOLE_VALUE) for c in calls) and ("param", b.id, 1) in list(og.walk(a))
        tmpl = "".join(_body_strings(b))
        if kind.startswith("new_display") and whole and any("hex::encode" in c or "to_lower_hex_string" in c or "to_hex" in c for c in calls):
            rr.ok("%s: text form = hex of the whole value" % ty, sample={"rule": rr.rule, "type": ty, "display argument": og.show(a)[:160]})
        elif kind.startswith("new_display") and not calls and isinstance(a, tuple) and a[0] == "proj" and a[1] == ("param", b.id, 1):
            rr.ok("%s: text form = that of the wrapped value" % ty, sample={"rule": rr.rule, "type": ty, "display argument": og.show(a)[:160]})
        elif kind.startswith("new_lower_hex") and (chr(2 * nbytes) + "\\x00" in tmpl or chr(2 * nbytes) + "\x00" in tmpl) and ("param", b.id, 1) in list(og.walk(a)):
            rr.ok("%s: text form = integer in hex, padded to %d digits" % (ty, 2 * nbytes))
        else:
            why = "an integer printed with `{:x}` drops leading zeros" if kind.startswith("new_lower_hex") else "it is `%s` (%s)" % (og.show(a)[:120], kind)
            rr.fail("identifier-text-form:%s" % ty, "Display of %s is not the hex encoding of all its %d bytes: %s. The text is what `get appointment <locator>` is signed over, what URLs / JSON carry and what from_hex parses back" % (ty, nbytes, why), where=b.span)


def rule_WT2(ctx, tier):
    rr = RuleResult("WT2", "twin definitions agree: ApiError structs, status/address string tables, discriminants, (de)serialiser adapters, identifier text forms")
    P = ctx.prog
    identifier_text_forms(ctx, rr)
    a, b = P.adts.get("teos::api::http::ApiError"), P.adts.get("watchtower_plugin::net::http::ApiError")
    if not a or not b:
        rr.anchor_missing("ApiError structs")
    else:
        fa = [(f["name"], f["ty"]) for f in a["variants"][0]["fields"]]
        fb = [(f["name"], f["ty"]) for f in b["variants"][0]["fields"]]
        if fa == fb:
            rr.ok("ApiError twins: %s" % fa, sample={"rule": "WT2", "tower ApiError": fa, "client ApiError": fb})
        else:
            rr.fail("apierror-twins", "the tower serialises errors as %s, the client parses %s" % (fa, fb))
    for enum, disp, fs in (("teos_common::appointment::AppointmentStatus", "<teos_common::appointment::AppointmentStatus as std::fmt::Display>::fmt", "<teos_common::appointment::AppointmentStatus as std::str::FromStr>::from_str"),
                           ("teos::protos::network_address::AddressType", None, None)):
        if disp is None:
            continue
        d, f = _display_table(ctx, disp), _fromstr_table(ctx, fs)
        adt = P.adts.get(enum)
        if not d or not f or not adt:
            rr.fail("table-undecided:%s" % enum.split("::")[-1], "cannot extract the Display/FromStr tables of %s (%s / %s)" % (enum, d, f))
            continue
        vs = {v["name"] for v in adt["variants"]}
        inv = {lit: var for var, lit in d.items()}
        if set(d) == vs and inv == f and len(inv) == len(d):
            rr.ok("%s: Display and FromStr are inverse on %s" % (enum.split("::")[-1], sorted(d.items())), sample={"rule": "WT2", "enum": enum, "display": d, "from_str": f})
        else:
            rr.fail("status-tables:%s" % enum.split("::")[-1], "Display %s and FromStr %s of %s are not inverse bijections over %s" % (d, f, enum, sorted(vs)))
    # numeric mapping i32 <-> AppointmentStatus agrees with the discriminants
    adt = P.adts.get("teos_common::appointment::AppointmentStatus")
    frm = P.bodies.get("<teos_common::appointment::AppointmentStatus as std::convert::From<i32>>::from")
    if adt and frm:
        table = {}
        for sw in frm.rpo():
            t = frm.term(sw)
            if t["k"] == "switch":
                for v, tgt in t["targets"]:
                    for x in frm.reachable(tgt, stop=lambda y: len(frm.preds().get(y, [])) > 1 and y != tgt):
                        for s in frm.blocks[x]["s"]:
                            if s["k"] == "assign" and s["rv"]["k"] == "agg" and not s["rv"]["ops"]:
                                table[v] = s["rv"]["variant"]
        disc = {v["discr"]: v["name"] for v in adt["variants"]}
        if table and all(disc.get(k) == v for k, v in table.items()) and set(disc) - set(table) <= {0}:
            rr.ok("From<i32> agrees with the enum discriminants %s" % disc, sample={"rule": "WT2", "from_i32": table, "discriminants": disc})
        else:
            rr.fail("status-discriminants", "From<i32> maps %s but the discriminants are %s" % (table, disc))
    else:
        rr.anchor_missing("AppointmentStatus / From<i32>")
    # adapters: each custom `with` module has both directions and they are inverse in kind
    adapters = {
        "teos_common::ser::serde_be": ("reverse", "reverse"),
        "teos_common::ser::serde_vec_bytes": ("hex::encode", "hex::decode"),
        "teos_common::ser::serde_status": ("to_string", "from_str"),
    }
    for mod, (enc, dec) in adapters.items():
        ser = [x for x in P.bodies if x.startswith(mod + "::serialize")]
        de = [x for x in P.bodies if x.startswith(mod + "::deserialize") or x.startswith("<" + mod + "::deserialize")]
        def mentions(ids, frag):
            for i in ids:
                for bb, t in P.bodies[i].calls():
                    if any(frag.lower() in n.lower() for n in call_names(t)):
                        return True
            return False
        if ser and de and mentions(ser, enc) and mentions(de, dec):
            rr.ok("%s: serialize uses %s, deserialize uses %s" % (mod.split("::")[-1], enc, dec))
        else:
            rr.fail("adapter:%s" % mod.split("::")[-1], "`%s` (de)serialiser pair is not the expected inverse pair (%s / %s)" % (mod, enc, dec))
    # error codes the client dispatches on are the ones the tower emits for that condition
    for fn in ("watchtower_client::on_commitment_revocation::{closure#0}", "watchtower_plugin::retrier::Retrier::run::{closure#0}"):
        b = P.require(fn)
        vals = set()
        for sw in b.rpo():
            t = b.term(sw)
            if t["k"] == "switch" and t.get("dty") == "u8":
                if "f:error_code" in og.show(ctx.og.operand(b, t["d"])):
                    vals |= {v for v, _ in t["targets"]}
        want = P.const_value("teos_common::errors::INVALID_SIGNATURE_OR_SUBSCRIPTION_ERROR")
        if vals == {want}:
            rr.ok("%s dispatches on error_code == INVALID_SIGNATURE_OR_SUBSCRIPTION_ERROR (%d)" % (shortfn(fn), want))
        else:
            rr.fail("client-error-code:%s" % shortfn(fn), "`%s` dispatches on error codes %s, the tower's subscription error is %d" % (shortfn(fn), sorted(vals), want), where=b.span)
    # hand-written sequence / map serialisers emit every element of what they are given: one serialize_element / serialize_entry
    # per turn of their loop (an element dropped here is a locator, receipt or appointment the other side never sees)
    from .rulekit import is_iter_next, always_reaches, switch_succ_with
    nser = 0
    for bid, b_ in sorted(P.bodies.items()):
        if not bid.startswith(("teos_common::ser::", "watchtower_plugin::ser::", "teos::ser::")) or "::tests" in bid:
            continue
        opens = [bb for bb, t in b_.calls() if (call_target(t) or "").split("::")[-1] in ("serialize_seq", "serialize_map")]
        if not opens:
            continue
        nser += 1
        emits = {bb for bb, t in b_.calls() if (call_target(t) or "").split("::")[-1] in ("serialize_element", "serialize_entry", "serialize_key", "serialize_value")}
        errs = {bb for bb, t in b_.calls() if (call_target(t) or "").endswith("::from_residual")}
        heads = [bb for bb in b_.rpo() if is_iter_next(b_, bb)]
        some_edges = [succ for h in heads for sw, succ in switch_succ_with(ctx, b_, "variant", "Some", "next") if succ in b_.reachable(h)]
        # iterator form: the emitting call sits in a closure handed to try_for_each / for_each / try_fold over the collection
        closure_form = False
        for bb, t in b_.calls():
            if (call_target(t) or "").split("::")[-1] in ("try_for_each", "for_each", "try_fold", "fold"):
                for i in range(len(t["args"])):
                    a_ = arg_origin(ctx, b_, bb, i)
                    if isinstance(a_, tuple) and a_ and a_[0] == "closure" and a_[1] in P.bodies:
                        cb_ = P.bodies[a_[1]]
                        cem = [x for x, t2 in cb_.calls() if (call_target(t2) or "").split("::")[-1] in ("serialize_element", "serialize_entry")]
                        if cem and always_reaches(cb_, [0], set(cem)):
                            closure_form = True
        if closure_form or (heads and some_edges and emits and all(always_reaches(b_, [e_], emits | errs, lambda x: x in heads) for e_ in some_edges)):
            rr.ok("%s emits one element per turn" % shortfn(bid))
        else:
            rr.fail("serialiser-drops-elements:%s" % shortfn(bid), "`%s` opens a sequence / map but a turn of its loop can pass without serialize_element / serialize_entry: the reply lists fewer items than the tower (or client) holds" % shortfn(bid), where=b_.span)
    if nser < 3:
        rr.fail("floor:sequence-serialisers", "only %d hand-written sequence / map serialisers found (4 on the reference tree)" % nser)
    rr.require_floor(8, "WT2 instances")
    return rr


_SINKS = ("extend", "extend_from_slice", "push", "append")
_INTS = ("u8", "u16", "u32", "u64", "u128", "usize", "i8", "i16", "i32", "i64", "i128", "isize")
_LENLIKE = ("len", "is_empty", "capacity")


def _field_uses(term, body_id, calls=(), casts=()):
    """(field, enclosing calls, enclosing cast targets) for every use of `self.<field>` in an origin term, ignoring
    uses that only feed a length"""
    if not isinstance(term, tuple) or not term:
        return
    k = term[0]
    if k == "proj" and term[1] == ("param", body_id, 1) and term[2] and str(term[2][0]).startswith("f:"):
        yield (term[2][0][2:], calls, casts)
        return
    if k == "call":
        if term[1].split("::")[-1] in _LENLIKE:
            return
        for a in term[2]:
            yield from _field_uses(a, body_id, calls + (term[1],), casts)
        return
    if k == "ret":
        if term[1].split("::")[-1] in _LENLIKE:
            return
        yield from _field_uses(term[2], body_id, calls + (term[1],), casts)
        return
    if k == "cast":
        yield from _field_uses(term[1], body_id, calls, casts + (str(term[2]),))
        return
    for x in term:
        if isinstance(x, tuple):
            yield from _field_uses(x, body_id, calls, casts)


def rule_WT3(ctx, tier):
    rr = RuleResult("WT3", "signed byte layouts cover every field except the signature, each once, and determine the fields")
    P = ctx.prog
    for ty in ("teos_common::appointment::Appointment", "teos_common::receipts::RegistrationReceipt", "teos_common::receipts::AppointmentReceipt"):
        adt = P.adts.get(ty)
        b = P.bodies.get(ty + "::to_vec")
        if not adt or not b:
            rr.anchor_missing(ty + "::to_vec")
            continue
        fields = [(f["name"], f["ty"]) for f in adt["variants"][0]["fields"]]
        # pieces appended to the returned buffer: the buffer's initial value plus the argument of every
        # extend/extend_from_slice/push/append; a field read that only feeds a length (capacity hint) is not a piece
        pieces, inits = [], []
        for bb, t in b.calls():
            if (call_target(t) or "").split("::")[-1] in _SINKS:
                a0 = og.strip(arg_origin(ctx, b, bb, 0))
                if a0 not in inits:
                    inits.append(a0)
                pieces.append(arg_origin(ctx, b, bb, 1))
        if not pieces:
            inits.append(ctx.og.local(b, 0))
        pieces = inits + pieces
        reads, enc = {}, {}
        for pc in pieces:
            seen_here = {}
            for f, calls, casts in _field_uses(pc, b.id):
                seen_here.setdefault(f, []).append((calls, casts))
            for f, uses in seen_here.items():
                reads[f] = reads.get(f, 0) + 1
                enc.setdefault(f, []).extend(uses)
        want = [n for n, t in fields if n != "signature"]
        missing = [n for n in want if n not in reads]
        extra = [n for n in reads if n not in want]
        dup = [n for n in want if reads.get(n, 0) > 1]
        if not missing and not extra and not dup:
            rr.ok("%s::to_vec appends %s once each" % (ty.split("::")[-1], want), sample={"rule": "WT3", "type": ty, "signed fields": want, "pieces": [og.show(x)[:80] for x in pieces]})
        else:
            rr.fail("signed-layout:%s" % ty.split("::")[-1], "`%s::to_vec` does not cover the fields exactly once: missing %s, unexpected %s, repeated %s — a receipt/appointment differing only there carries the same signature" % (ty.split("::")[-1], missing, extra, dup), where=b.span)
        # fixed-width fields are serialised whole: to_be_bytes of the field's own type, no narrowing cast on the way
        for n, t in fields:
            if t in _INTS and n in enc:
                good = [u for u in enc[n] if not u[1] and any(c.endswith("<impl %s>::to_be_bytes" % t) for c in u[0])]
                if good and len(good) == len(enc[n]):
                    rr.ok("%s.%s is signed as %s::to_be_bytes (no cast)" % (ty.split("::")[-1], n, t))
                else:
                    how = "; ".join("%s%s" % ("cast to %s, " % "/".join(u[1]) if u[1] else "", [c.split("::")[-1] for c in u[0]]) for u in enc[n])
                    rr.fail("signed-int-encoding:%s.%s" % (ty.split("::")[-1], n), "`%s` (%s) is not signed through `%s::to_be_bytes` of the whole value (%s): two values that differ only in the dropped bits carry the same signature" % (n, t, t, how), where=b.span)
        var = [n for n, t in fields if n != "signature" and ("Vec<" in t or "String" in t)]
        if len(var) <= 1:
            rr.ok("%s: at most one variable-length component (%s)" % (ty.split("::")[-1], var))
        else:
            rr.fail("signed-ambiguous:%s" % ty.split("::")[-1], "several variable-length fields %s are concatenated without length prefixes" % var, where=b.span)
        for m in ("sign", "verify"):
            mb = P.bodies.get(ty + "::" + m)
            if mb is None:
                continue
            msg_ok = False
            for bb, t in mb.calls():
                if any(n.endswith(("cryptography::sign", "cryptography::verify")) for n in call_names(t)):
                    a0 = arg_origin(ctx, mb, bb, 0)
                    if has_call(a0, ty.split("::")[-1] + "::to_vec") and ("param", mb.id, 1) in list(og.walk(a0)):
                        msg_ok = True
            if msg_ok:
                rr.ok("%s::%s uses self.to_vec()" % (ty.split("::")[-1], m))
            else:
                rr.fail("signed-message:%s::%s" % (ty.split("::")[-1], m), "`%s::%s` does not sign/verify `self.to_vec()`" % (ty.split("::")[-1], m), where=mb.span)
    rr.require_floor(10, "WT3 instances")
    return rr


def _const_defs_in(x):
    """names of the constants used anywhere inside an rvalue (as extracted: nested dicts / lists)"""
    out = []
    if isinstance(x, dict):
        d = x.get("def")
        if isinstance(d, str):
            out.append(d)
        for v in x.values():
            out.extend(_const_defs_in(v))
    elif isinstance(x, list):
        for v in x:
            out.extend(_const_defs_in(v))
    return out


def rule_HT1(ctx, tier):
    rr = RuleResult("HT1", "HTTP layer: handler status codes are all mapped explicitly; every emitted error code is documented; router shape")
    P = ctx.prog
    emitted = {}
    fams = []
    for m in ("register", "add_appointment", "get_appointment", "get_subscription_info"):
        fams.extend(P.family(PUB + m))
    fams.extend(P.family("teos::api::internal::InternalAPI::check_service_unavailable"))
    for bid in fams:
        b = P.bodies[bid]
        for bb in sites(b, "tonic::Status::new"):
            a = arg_origin(ctx, b, bb, 0)
            if a[0] == "agg" and a[1].endswith("tonic::Code"):
                emitted.setdefault(a[2], (b, bb))
            else:
                rr.fail("status-code-not-constant:%s" % shortfn(bid), "Status::new with a non-constant code `%s`" % og.show(a)[:60], where=b.line_of(bb))
        for bb, t in b.calls():
            tgt = call_target(t) or ""
            if tgt.startswith("tonic::Status::") and not tgt.endswith("::new") and tgt.split("::")[-1] in ("internal", "unknown", "aborted", "cancelled", "data_loss", "unimplemented", "failed_precondition", "out_of_range", "permission_denied", "deadline_exceeded"):
                emitted.setdefault(tgt.split("::")[-1], (b, bb))
    ms = P.require("teos::api::http::match_status")
    matched, other_val, arm_vals = set(), None, {}
    for sw in ms.rpo():
        t = ms.term(sw)
        if t["k"] != "switch":
            continue
        sf = ctx.pf.switch_facts(ms, sw)
        for succ, facts in sf.items():
            for f in facts:
                if f[0] == "variant" and has_call(f[1], "Status::code"):
                    matched.add(f[2])
    # error code per arm: constants assigned on each arm
    defs = set()
    for bb in ms.rpo():
        for s in ms.blocks[bb]["s"]:
            if s["k"] != "assign":
                continue
            # the constant may be copied into a local or put straight into the returned pair
            for dname in _const_defs_in(s["rv"]):
                if dname.startswith("teos_common::errors::"):
                    defs.add((dname, tuple(sorted(f[2] for f in facts_at(ctx, ms, bb) if f[0] == "variant"))))
    if not matched:
        rr.fail("match_status-shape", "cannot find the Code match in match_status", where=ms.span)
    for code, (b, bb) in sorted(emitted.items()):
        if code in matched:
            rr.ok("Code::%s emitted by a public handler is mapped explicitly" % code, sample={"rule": "HT1", "code": code, "emitted in": b.id})
        else:
            rr.fail("unmapped-status:%s" % code, "a public handler answers with tonic Code::%s, which `http::match_status` only reaches through its catch-all arm: the HTTP reply carries the undocumented UNEXPECTED_ERROR code" % code, where=b.line_of(bb))
    for d, fs in sorted(defs):
        name = d.split("::")[-1]
        if name == "UNEXPECTED_ERROR":
            if not fs or all(v not in matched for v in fs):
                rr.ok("UNEXPECTED_ERROR only on the catch-all arm")
            else:
                rr.fail("unexpected-on-explicit-arm", "UNEXPECTED_ERROR is produced on the explicit arm %s" % (fs,), where=ms.span)
        else:
            rr.ok("arm %s -> errors::%s" % (",".join(fs), name), nontrivial=False)
    # no deadline between the HTTP layer and the internal API: the internal handlers are synchronous (they cannot be cancelled),
    # so a client-side timeout / limit on the channel or around a call only changes the answer (tonic reports Cancelled /
    # DeadlineExceeded, which match_status sends to the catch-all code) while the request still takes effect
    DEADLINE = ("timeout", "set_timeout", "timeout_at", "concurrency_limit", "rate_limit", "connect_timeout")
    dl = []
    for bid, b_ in P.bodies.items():
        if not bid.startswith("teos::api::http::") or "::tests" in bid:
            continue
        for bb, t in b_.calls():
            tg = call_target(t) or ""
            if tg.split("::")[-1] in DEADLINE and ("tonic::" in tg or "tokio::time::" in tg or "tower::" in tg):
                dl.append((b_, bb, tg))
    # message-size caps on the generated client: replies (get_subscription_info lists every locator of the user) are not bounded by
    # any request limit, so a cap below tonic's own default (4 MiB) turns a legitimate reply into an undocumented error
    for bid, b_ in P.bodies.items():
        if not bid.startswith("teos::api::http::") or "::tests" in bid:
            continue
        for bb, t in b_.calls():
            tg = call_target(t) or ""
            if tg.split("::")[-1] in ("max_decoding_message_size", "max_encoding_message_size") and "PublicTowerServicesClient" in tg:
                v_ = og.strip(arg_origin(ctx, b_, bb, 1))
                while isinstance(v_, tuple) and v_ and v_[0] == "cast":
                    v_ = og.strip(v_[1])
                n_ = v_[1] if isinstance(v_, tuple) and v_ and v_[0] == "const" and isinstance(v_[1], int) else None
                if n_ is not None and n_ >= 4 * 1024 * 1024:
                    rr.ok("message-size cap %d >= tonic's default" % n_)
                else:
                    dl.append((b_, bb, tg))
    if not dl:
        rr.ok("no deadline or limit is put on the calls to the internal API (%d http bodies scanned)" % sum(1 for x in P.bodies if x.startswith("teos::api::http::") and "::tests" not in x))
    for b_, bb, tg in dl:
        rr.fail("internal-call-deadline:%s" % tg.split("::")[-1], "the HTTP layer bounds its calls to the internal API with `%s`: when the bound is hit the user gets a status tonic made up (Cancelled / DeadlineExceeded / OutOfRange), which has no documented code (catch-all UNEXPECTED_ERROR) and which the client cannot parse as the reply; a synchronous handler cut off by a deadline still completes, so a non-200 answer changes the tower's state" % tg[-70:], where=b_.line_of(bb))
    # HTTP statuses: everything the layer can answer with is 200, a 4xx or 503 (never another 5xx), and the status a gRPC code is
    # turned into is the documented one; arms are identified by the error-code constant they carry, whatever the form of the match
    ALLOWED = {"OK", "BAD_REQUEST", "UNAUTHORIZED", "NOT_FOUND", "SERVICE_UNAVAILABLE", "METHOD_NOT_ALLOWED", "PAYLOAD_TOO_LARGE", "LENGTH_REQUIRED", "UNSUPPORTED_MEDIA_TYPE"}
    used = {}
    for bid, b_ in P.bodies.items():
        if not bid.startswith("teos::api::http::") or "::tests" in bid:
            continue
        for bb in b_.rpo():
            for st in b_.blocks[bb]["s"]:
                if st["k"] == "assign":
                    for dname in _const_defs_in(st["rv"]):
                        if "::StatusCode::" in dname:
                            used.setdefault(dname.split("::")[-1], (b_, bb))
            for dname in _const_defs_in(b_.term(bb)):
                if "::StatusCode::" in dname:
                    used.setdefault(dname.split("::")[-1], (b_, bb))
    for name, (b_, bb) in sorted(used.items()):
        if name in ALLOWED:
            rr.ok("HTTP status %s is a documented one" % name)
        else:
            rr.fail("undocumented-http-status:%s" % name, "the HTTP layer answers with StatusCode::%s; documented answers are 200, 4xx and 503" % name, where=b_.line_of(bb))
    WANT_HTTP = {"NotFound": "NOT_FOUND", "Unauthenticated": "UNAUTHORIZED", "Unavailable": "SERVICE_UNAVAILABLE"}
    # status written on an explicit arm (mutable default + per-arm override, or a pair per arm)
    arm_status = {}
    for bb in ms.rpo():
        arms = tuple(sorted(f[2] for f in facts_at(ctx, ms, bb) if f[0] == "variant" and has_call(f[1], "Status::code")))
        if len(arms) > 1:
            continue
        for st in ms.blocks[bb]["s"]:
            if st["k"] == "assign":
                for dname in _const_defs_in(st["rv"]):
                    if "::StatusCode::" in dname:
                        arm_status.setdefault(arms[0] if arms else "<default>", set()).add(dname.split("::")[-1])
    for code in sorted(matched):
        got_ = arm_status.get(code) or arm_status.get("<default>") or {"<none>"}
        exp_ = WANT_HTTP.get(code, "BAD_REQUEST")
        if got_ == {exp_}:
            rr.ok("Code::%s -> HTTP %s" % (code, exp_))
        else:
            rr.fail("http-status-mapping:%s" % code, "Code::%s is answered with HTTP %s, documented: %s" % (code, "/".join(sorted(got_)), exp_), where=ms.span)
    # documented arm values
    want = {"InvalidArgument": "WRONG_FIELD_FORMAT", "NotFound": "APPOINTMENT_NOT_FOUND", "AlreadyExists": "APPOINTMENT_ALREADY_TRIGGERED",
            "ResourceExhausted": "REGISTRATION_RESOURCE_EXHAUSTED", "Unauthenticated": "INVALID_SIGNATURE_OR_SUBSCRIPTION_ERROR", "Unavailable": "SERVICE_UNAVAILABLE"}
    got = {fs[0]: d.split("::")[-1] for d, fs in defs if len(fs) == 1}
    for code, name in want.items():
        if got.get(code) == name:
            rr.ok("Code::%s -> %s" % (code, name))
        else:
            rr.fail("code-mapping:%s" % code, "Code::%s is mapped to %s, documented: %s" % (code, got.get(code), name), where=ms.span)
    # every error code produced in the http module is a constant of teos_common::errors
    for fn in ("teos::api::http::handle_rejection::{closure#0}", "teos::api::http::ApiError::missing_field", "teos::api::http::ApiError::empty_field", "teos::api::http::ApiError::wrong_field_length"):
        b = P.bodies.get(fn)
        if b is None:
            rr.anchor_missing(fn)
            continue
        ks = set()
        def walk(o):
            if isinstance(o, dict):
                if "k" in o and isinstance(o["k"], dict) and o["k"].get("ty") == "u8":
                    ks.add(o["k"].get("def") or ("literal:%s" % o["k"].get("int")))
                for v in o.values():
                    walk(v)
            elif isinstance(o, list):
                for v in o:
                    walk(v)
        walk(b.blocks)
        bad = [k for k in ks if not str(k).startswith("teos_common::errors::") or k.endswith("UNEXPECTED_ERROR")]
        if ks and not bad:
            rr.ok("%s emits only documented codes %s" % (shortfn(fn), sorted(k.split("::")[-1] for k in ks)))
        else:
            rr.fail("undocumented-code:%s" % shortfn(fn), "`%s` emits error codes %s" % (shortfn(fn), sorted(map(str, ks))), where=b.span)
    # router shape
    from .rules_wire import _tower_routes as tr
    rb, routes = tr(ctx)
    limits = {"Register": "REGISTER_BODY_LEN", "AddAppointment": "ADD_APPOINTMENT_BODY_LEN", "GetAppointment": "GET_APPOINTMENT_BODY_LEN", "GetSubscriptionInfo": "GET_SUBSCRIPTION_INFO_BODY_LEN"}
    for ep, cname in limits.items():
        r = routes.get(ep, {})
        k = r.get("limit")
        if k and k[1] and k[1].endswith(cname) and r.get("method") == "post":
            rr.ok("POST /%s limited by %s=%s" % (ep, cname, k[0]))
        else:
            rr.fail("route-limit:%s" % ep, "route for Endpoint::%s: method %s, body limit %s (expected POST with %s)" % (ep, r.get("method"), k, cname), where=rb.span)
    rec = sites_containing(rb, "Filter::recover")
    if rec and arg_origin(ctx, rb, rec[0], 1) == ("fn", "teos::api::http::handle_rejection") and all(og.show(arg_origin(ctx, rb, rec[0], 0)).count("Filter::or(") >= 4 for _ in [0]):
        rr.ok("all routes share recover(handle_rejection)")
    else:
        rr.fail("no-shared-recover", "the routes are not wrapped by `.recover(handle_rejection)`", where=rb.span)
    # field validations present before forwarding (empty / size), per handler
    checks = {"register": ["f:user_id"], "add_appointment": ["f:locator", "f:signature"], "get_appointment": ["f:locator", "f:signature"], "get_subscription_info": ["f:signature"]}
    for m, flds in checks.items():
        h = P.bodies.get("teos::api::http::%s::{closure#0}" % m)
        if h is None:
            rr.anchor_missing("http::" + m)
            continue
        g = [x for x in sites_containing(h, "PublicTowerServicesClient") if (call_target(h.term(x)) or "").endswith("::" + m)]
        for fl in flds:
            ok = False
            for x in g:
                for f in facts_at(ctx, h, x):
                    if f[0] == "truth" and f[2] is False and has_call(f[1], "is_empty") and fl in og.show(f[1]):
                        ok = True
            if ok:
                rr.ok("http::%s rejects empty %s before forwarding" % (m, fl[2:]))
            else:
                rr.fail("empty-field-forwarded:%s.%s" % (m, fl[2:]), "http::%s forwards a request whose `%s` may be empty" % (m, fl[2:]), where=h.span)
    rr.require_floor(30, "HT1 instances")
    # what each handler refuses on its own is exactly the documented field checks: an extra check (an empty blob, say) turns
    # requests the client can legitimately emit into errors; a missing one lets the internal service's unwraps see bad data
    WANT = {
        "register": {("empty_field", "user_id"), ("wrong_field_length", "user_id")},
        "add_appointment": {("missing_field", "appointment"), ("empty_field", "locator"), ("wrong_field_length", "locator"), ("empty_field", "signature")},
        "get_appointment": {("empty_field", "locator"), ("wrong_field_length", "locator"), ("empty_field", "signature")},
        "get_subscription_info": {("empty_field", "signature")},
    }
    for m, want in WANT.items():
        got = set()
        hfn = "teos::api::http::" + m
        for bid in P.family(hfn) if hfn in P.bodies else []:
            hb = P.bodies[bid]
            for bb, t in hb.calls():
                tg = call_target(t) or ""
                if "api::http::ApiError::" in tg and tg.split("::")[-1] in ("empty_field", "wrong_field_length", "missing_field", "wrong_field_type", "wrong_field_format"):
                    a0 = arg_origin(ctx, hb, bb, 0)
                    got.add((tg.split("::")[-1], a0[1] if a0[0] == "const" else og.show(a0)[:30]))
        # a length refusal is reached only where the length was found to differ from the wire constant of that field
        LEN_CONST = {"user_id": "teos_common::USER_ID_LEN", "locator": "teos_common::appointment::LOCATOR_LEN"}
        from .rulekit import rel_of_term
        for bid in P.family(hfn) if hfn in P.bodies else []:
            hb = P.bodies[bid]
            for bb, t in hb.calls():
                tg = call_target(t) or ""
                if not tg.endswith("api::http::ApiError::wrong_field_length"):
                    continue
                a0 = arg_origin(ctx, hb, bb, 0)
                fld = a0[1] if a0[0] == "const" else None
                okp = False
                for f in facts_at(ctx, hb, bb):
                    if f[0] != "truth":
                        continue
                    for op, l, r in rel_of_term(f[1], f[2]):
                        k = og.strip(r)
                        if op == "Ne" and isinstance(k, tuple) and k and k[0] == "const" and len(k) > 2 and k[2] == LEN_CONST.get(fld) \
                                and has_call(l, "len") and ("f:%s" % fld) in og.show(l):
                            okp = True
                if okp:
                    rr.ok("http::%s refuses `%s` for its length only when len != %s" % (m, fld, LEN_CONST.get(fld, "?").split("::")[-1]))
                else:
                    rr.fail("length-check-polarity:%s.%s" % (m, fld), "http::%s answers wrong_field_length(\"%s\") on a path where the length was not found to differ from %s: well-formed requests are refused and malformed ones reach the internal API" % (m, fld, LEN_CONST.get(fld, "the wire constant")), where=hb.line_of(bb))
        if got == want:
            rr.ok("http::%s validates %s" % (m, sorted(want)), sample={"rule": "HT1", "handler": m, "field checks": sorted(got)})
        else:
            rr.fail("field-checks:%s" % m, "http::%s refuses %s on its own; documented: %s (extra: %s, missing: %s)" % (m, sorted(got), sorted(want), sorted(got - want), sorted(want - got)), where=P.bodies[hfn].span if hfn in P.bodies else None)
    return rr


def rule_WT4(ctx, tier):
    rr = RuleResult("WT4", "generated message (de)serialisers as compiled: every field is required when parsing; both directions use matching field adapters")
    P = ctx.prog
    # the public wire messages (client <-> tower); `teos::protos` holds the private admin API, which is out of C16's scope
    msgs = [a for p, a in P.adts.items() if p.startswith("teos_common::protos::") and a["kind"] == "struct" and "::_::" not in p and a["variants"][0]["fields"]]
    FLATTENED = {"teos_common::protos::AppointmentData": "its only field is the #[serde(flatten)]ed untagged oneof: the alternatives' own required fields discriminate"}
    n = 0
    for a in sorted(msgs, key=lambda x: x["path"]):
        name = a["path"]
        fields = [f["name"] for f in a["variants"][0]["fields"]]
        de = [b for bid, b in P.bodies.items() if ("Deserialize<'de> for %s>" % name) in bid]
        se = [b for bid, b in P.bodies.items() if ("Serialize for %s>" % name) in bid]
        if not de:
            continue   # not a wire message (no serde derive)
        n += 1
        req = set()
        de_ad, se_ad = set(), set()
        for b in de:
            for bb, t in b.calls():
                tgt = call_target(t) or ""
                if tgt.endswith("missing_field"):
                    for i in range(len(t["args"])):
                        k = const_of(arg_origin(ctx, b, bb, i))
                        if k and isinstance(k[0], str):
                            req.add(k[0])
                if tgt.endswith("::deserialize") and ("hex::" in tgt or "::ser::" in tgt):
                    de_ad.add(tgt.rsplit("::", 1)[0])
        for b in se:
            for bb, t in b.calls():
                tgt = call_target(t) or ""
                if tgt.endswith("::serialize") and ("hex::" in tgt or "::ser::" in tgt):
                    se_ad.add(tgt.rsplit("::", 1)[0])
        # serde renames: compare against the serialised names when a rename is in force
        ser_names = set()
        for b in se:
            for bb, t in b.calls():
                tgt = call_target(t) or ""
                if tgt.endswith(("serialize_field", "serialize_entry")):
                    for i in range(len(t["args"])):
                        k = const_of(arg_origin(ctx, b, bb, i))
                        if k and isinstance(k[0], str):
                            ser_names.add(k[0])
        want = ser_names if (se and ser_names and len(ser_names) == len(fields)) else set(fields)
        if name in FLATTENED:
            if not req:
                rr.ok("%s: flattened oneof wrapper" % name.split("::")[-1], nontrivial=False)
            else:
                rr.fail("flatten-shape:%s" % name.split("::")[-1], "`%s` is no longer a flattened wrapper (requires %s)" % (name, sorted(req)))
            continue
        if req == want:
            rr.ok("%s: all %d fields required when parsing" % (name.split("::")[-1], len(fields)), sample={"rule": "WT4", "message": name, "required": sorted(req)})
        else:
            rr.fail("optional-fields:%s" % name.split("::", 1)[-1], "the deserialiser of `%s` requires %s but the message has %s: missing fields are silently defaulted, so a body of another shape parses as this message (untagged alternatives become ambiguous, `missing field` errors disappear)" % (name, sorted(req), sorted(want)))
        if se and de_ad != se_ad:
            rr.fail("adapter-mismatch:%s" % name.split("::", 1)[-1], "`%s` serialises through %s but parses through %s" % (name, sorted(se_ad), sorted(de_ad)))
        elif se:
            rr.ok("%s: adapters %s in both directions" % (name.split("::")[-1], sorted(x.split("::")[-1] for x in se_ad)), nontrivial=bool(se_ad))
    if n < 11:
        rr.fail("floor:wire-messages", "only %d wire messages with generated deserialisers found (11 confirmed)" % n)
    rr.require_floor(18, "WT4 instances")
    return rr
