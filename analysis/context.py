"""Shared analysis context: program facts + lazily built engines."""
import time

from .facts import Program
from .callgraph import CallGraph


class Ctx:
    def __init__(self, force=False):
        t0 = time.time()
        self.prog = Program.load(force=force)
        self.extract_seconds = time.time() - t0
        from .inline import inline_new_helpers
        try:
            self.inline_report = inline_new_helpers(self.prog)
        except Exception as e:  # the refinement must never take the analysis down: fall back to the program as extracted
            self.prog = Program.load(force=False)
            self.inline_report = {"error": repr(e), "new_helpers": [], "spliced_sites": 0}
        self.cg = CallGraph(self.prog)
        self._locks = None
        self._og = {}
        self._pf = None
        from . import sql
        sql.CTX = self

    @property
    def locks(self):
        if self._locks is None:
            from .locks import LockEngine
            self._locks = LockEngine(self.prog, self.cg)
        return self._locks

    def origins(self, depth=3):
        if depth not in self._og:
            from .origin import Origins
            self._og[depth] = Origins(self.prog, self.cg, max_depth=depth)
        return self._og[depth]

    @property
    def og(self):
        return self.origins(3)

    @property
    def pf(self):
        if self._pf is None:
            from .pathfacts import PathFacts
            self._pf = PathFacts(self.prog, self.cg, self.og)
        return self._pf

    def where(self, body, bb=None):
        if bb is None:
            return body.span
        return body.line_of(bb)
