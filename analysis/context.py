"""Shared analysis context: program facts + lazily built engines."""
import time

from .facts import Program
from .callgraph import CallGraph


class Ctx:
    def __init__(self, force=False):
        t0 = time.time()
        self.prog = Program.load(force=force)
        self.extract_seconds = time.time() - t0
        from .inline import inline_new_helpers
        self.inline_report = inline_new_helpers(self.prog)
        self.cg = CallGraph(self.prog)
        self._locks = None
        self._og = {}
        self._pf = None

    @property
    def locks(self):
        if self._locks is None:
            from .locks import LockEngine
            self._locks = LockEngine(self.prog, self.cg)
        return self._locks

    def origins(self, depth=3):
        if depth not in self._og:
            from .origin import Origins
            self._og[depth] = Origins(self.prog, self.cg, max_depth=depth)
        return self._og[depth]

    @property
    def og(self):
        return self.origins(3)

    @property
    def pf(self):
        if self._pf is None:
            from .pathfacts import PathFacts
            self._pf = PathFacts(self.prog, self.cg, self.og)
        return self._pf

    def where(self, body, bb=None):
        if bb is None:
            return body.span
        return body.line_of(bb)
