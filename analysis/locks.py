"""E4: lock engine. Lock class = the T of Mutex<T> at the resolved `Mutex::<T>::lock` call.

held(point) = guard-typed locals that are maybe-initialised at that point (gen: assignment / call
destination; kill: move-out, Drop, StorageDead).  MIR spells out the drops of temporaries, so method
chains and match scrutinees are handled by construction.
"""
from collections import defaultdict

from .facts import call_names, call_target

ACQUIRE = {
    "std::sync::Mutex::<T>::lock": "mutex",
    "std::sync::Mutex::<T>::try_lock": "mutex-try",
    "std::sync::RwLock::<T>::read": "rw-read",
    "std::sync::RwLock::<T>::write": "rw-write",
    "tokio::sync::Mutex::<T>::lock": "tokio-mutex",
    "tokio::sync::RwLock::<T>::read": "tokio-rw-read",
    "tokio::sync::RwLock::<T>::write": "tokio-rw-write",
}
CONDVAR_WAIT = {"std::sync::Condvar::wait", "std::sync::Condvar::wait_while", "std::sync::Condvar::wait_timeout"}
CONDVAR_NOTIFY = {"std::sync::Condvar::notify_all", "std::sync::Condvar::notify_one"}


def norm_class(t):
    return t.replace("'_, ", "").replace("'static, ", "")


def guard_class(local):
    g = local.get("g")
    if not g:
        return None
    return norm_class(g[0][1])


def _bare(op):
    pl = op.get("m")
    if pl is not None and len(pl) == 1:
        return pl[0]
    return None


class BodyLocks:
    """Per-body held-guard dataflow."""

    def __init__(self, body):
        self.body = body
        self.guard_locals = {i for i, l in enumerate(body.locals) if l.get("g")}
        self.before_term = {}
        self.entry = {}
        self._run()

    def _stmt(self, s, held):
        if s["k"] == "assign":
            rv = s["rv"]
            ops = []
            if "o" in rv:
                ops.append(rv["o"])
            for k in ("a", "b"):
                if k in rv:
                    ops.append(rv[k])
            ops.extend(rv.get("ops", []))
            for o in ops:
                l = _bare(o)
                if l in self.guard_locals:
                    held.discard(l)
            d = s["d"]
            if d[0] in self.guard_locals:
                held.add(d[0])
        elif s["k"] == "dead":
            held.discard(s["l"])

    def _run(self):
        b = self.body
        if not self.guard_locals:
            return
        entry = {0: set()}
        work = [0]
        while work:
            bb = work.pop()
            held = set(entry[bb])
            for s in b.blocks[bb]["s"]:
                self._stmt(s, held)
            t = b.term(bb)
            self.before_term[bb] = set(held)
            out = set(held)
            k = t["k"]
            if k == "call":
                for a in t["args"]:
                    l = _bare(a)
                    if l in self.guard_locals:
                        out.discard(l)
                d = t["dest"]
                if d[0] in self.guard_locals:
                    out.add(d[0])
            elif k == "drop":
                p = t["p"]
                if len(p) == 1:
                    out.discard(p[0])
            for s in b.succ(bb):
                if s not in entry:
                    entry[s] = set(out)
                    work.append(s)
                elif not out <= entry[s]:
                    entry[s] |= out
                    work.append(s)
        self.entry = entry

    def held_at_term(self, bb):
        return self.before_term.get(bb, set())

    def classes_at_term(self, bb):
        return {guard_class(self.body.locals[l]) for l in self.held_at_term(bb)} | getattr(self, "inherited_classes", set())


class LockEngine:
    def __init__(self, prog, cg):
        self.prog = prog
        self.cg = cg
        self._bl = {}
        self.acquire_sites = []   # (body id, bb, class, kind, held classes)
        self.wait_sites = []      # (body id, bb, held classes)
        self.notify_sites = []    # (body id, bb)
        self.returns_guard = []   # bodies whose return type owns a guard
        for b in prog.bodies.values():
            if b.locals and b.locals[0].get("g") and b.kind in ("fn", "method"):
                self.returns_guard.append(b.id)
            bl = self.locks(b.id)
            for bb, t in b.calls():
                names = call_names(t)
                for n in names:
                    if n in ACQUIRE:
                        cls = norm_class(t["targs"][0]) if t.get("targs") else "?"
                        self.acquire_sites.append((b.id, bb, cls, ACQUIRE[n], frozenset(bl.classes_at_term(bb))))
                        break
                if names & CONDVAR_WAIT:
                    # the guard passed to wait is released while waiting and re-acquired before returning
                    passed = set()
                    for a in t["args"]:
                        l = _bare(a)
                        if l is not None and b.locals[l].get("g"):
                            passed.add(guard_class(b.locals[l]))
                    self.wait_sites.append((b.id, bb, frozenset(bl.classes_at_term(bb) - passed), frozenset(passed)))
                if names & CONDVAR_NOTIFY:
                    self.notify_sites.append((b.id, bb))
        self._may_acquire = None
        self._inherit()

    _SYNC_ADAPTORS = ("std::iter::", "core::iter::", "::Iterator>::", "std::option::Option", "std::result::Result", "std::iter::Iterator::")

    def _inherit(self):
        """a closure handed to an iterator / Option / Result adaptor runs inside its parent's frame: it holds whatever lock
        classes the parent holds at the adaptor call (closures handed to anything else — spawn, callbacks — inherit nothing)"""
        done = set()

        def classes_for(cid, depth=0):
            if cid in done or depth > 4:
                return self.locks(cid).__dict__.get("inherited_classes", set())
            done.add(cid)
            c = self.prog.bodies[cid]
            bl = self.locks(cid)
            bl.inherited_classes = set()
            if c.kind != "closure" or not c.parent or c.parent not in self.prog.bodies:
                return bl.inherited_classes
            par = self.prog.bodies[c.parent]
            pbl = self.locks(par.id)
            classes_for(par.id, depth + 1)
            # the local(s) holding the closure value
            holders = set()
            for blk in par.blocks:
                for st in blk["s"]:
                    if st.get("k") == "assign" and st["rv"].get("k") == "agg" and st["rv"].get("def") == cid and len(st["d"]) == 1:
                        holders.add(st["d"][0])
            got = None
            for bb, t in par.calls():
                for a in t.get("args", []):
                    l = _bare(a)
                    if l in holders:
                        tg = (t.get("rcallee") or t.get("callee") or "")
                        if any(x in tg for x in self._SYNC_ADAPTORS):
                            cl = pbl.classes_at_term(bb)
                            got = cl if got is None else (got & cl)
                        else:
                            got = set()
            bl.inherited_classes = set(got or ())
            return bl.inherited_classes
        for cid, c in self.prog.bodies.items():
            if c.kind == "closure":
                classes_for(cid)

    def locks(self, bid):
        if bid not in self._bl:
            self._bl[bid] = BodyLocks(self.prog.bodies[bid])
        return self._bl[bid]

    def classes(self):
        return sorted({c for _, _, c, _, _ in self.acquire_sites})

    # ---- summaries ----
    def may_acquire(self):
        """body id -> {class: chain} where chain is a list of (body id, bb) call sites ending in the lock() call"""
        if self._may_acquire is None:
            direct = defaultdict(dict)
            for bid, bb, cls, kind, _ in self.acquire_sites:
                direct[bid].setdefault(cls, [(bid, bb)])
            ma = {bid: dict(direct.get(bid, {})) for bid in self.prog.bodies}
            changed = True
            while changed:
                changed = False
                for bid in self.prog.bodies:
                    for callee, bb, kind in self.cg.callees(bid):
                        for cls, chain in ma.get(callee, {}).items():
                            if cls not in ma[bid]:
                                ma[bid][cls] = [(bid, bb)] + chain
                                changed = True
            self._may_acquire = ma
        return self._may_acquire

    def order_edges(self, prune=None):
        """Lock-order edges A -> B: B is (transitively) acquired while a guard of class A is held.
        Returns {(A,B): [witness]} with witness = dict(holder body, bb, chain).
        `prune(body id, bb, callee id)` may return a set of classes to drop from the callee summary
        at that call site (path-sensitive refinement for constant flag arguments)."""
        ma = self.may_acquire()
        edges = defaultdict(list)
        for bid, bb, cls, kind, held in self.acquire_sites:
            for h in held:
                edges[(h, cls)].append({"holder": bid, "bb": bb, "chain": [(bid, bb)], "direct": True})
        for bid, b in self.prog.bodies.items():
            bl = self.locks(bid)
            if not bl.guard_locals:
                continue
            for callee, bb, kind in self.cg.callees(bid):
                if bb is None:
                    continue
                held = bl.classes_at_term(bb)
                if not held:
                    continue
                acq = ma.get(callee, {})
                dropped = prune(bid, bb, callee) if prune else set()
                for cls, chain in acq.items():
                    if cls in dropped:
                        continue
                    for h in held:
                        edges[(h, cls)].append({"holder": bid, "bb": bb, "chain": [(bid, bb)] + chain, "direct": False})
        return edges

    def held_span(self, bid, from_bb, to_bbs):
        """classes held continuously on every path from call site `from_bb` to each block in to_bbs
        (intersection over the blocks on all paths is approximated by: same guard local held at
        from_bb and at every target and at every block on some path between them)."""
        b = self.prog.bodies[bid]
        bl = self.locks(bid)
        start = bl.held_at_term(from_bb)
        out = None
        for tb in to_bbs:
            common = {l for l in start if l in bl.held_at_term(tb)}
            # every block between must also hold it
            between = self._between(b, from_bb, tb)
            for l in list(common):
                if any(l not in bl.held_at_term(x) for x in between):
                    common.discard(l)
            out = common if out is None else (out & common)
        return {guard_class(b.locals[l]) for l in (out or set())}

    @staticmethod
    def _between(b, a, z):
        fwd = b.reachable(a)
        # backward reachability from z
        preds = b.preds()
        back, st = set(), [z]
        while st:
            x = st.pop()
            if x in back:
                continue
            back.add(x)
            st.extend(preds.get(x, []))
        return (fwd & back)
