//! teos-facts: rustc_private fact extractor for the rust-teos workspace.
//!
//! Used as RUSTC_WORKSPACE_WRAPPER: argv = [self, <rustc path>, <rustc args...>].
//! For every workspace crate (not build scripts) it dumps one JSON file with the
//! pre-coroutine-transform MIR (`mir_built`) of every body, resolved callees,
//! ADT definitions and named constants into $TEOS_FACTS_DIR. The compilation then
//! continues normally so that dependants get their metadata.
#![feature(rustc_private)]
#![allow(clippy::all)]

extern crate rustc_abi;
extern crate rustc_data_structures;
extern crate rustc_driver;
extern crate rustc_hir;
extern crate rustc_hir_pretty;
extern crate rustc_interface;
extern crate rustc_middle;
extern crate rustc_session;
extern crate rustc_span;

mod json;
use json::J;

use rustc_driver::{Callbacks, Compilation};
use rustc_hir::def::DefKind;
use rustc_hir::def_id::{DefId, LocalDefId};
use rustc_middle::mir::{
    self, AggregateKind, BasicBlock, Body, Const, ConstValue, Operand, Place, ProjectionElem,
    Rvalue, StatementKind, TerminatorKind, UnwindAction, VarDebugInfoContents,
};
use rustc_middle::ty::print::{with_no_trimmed_paths, with_resolve_crate_name};
use rustc_middle::ty::{self, GenericArgsRef, Ty, TyCtxt, TypingEnv};
use rustc_span::Span;

struct Facts;

fn main() {
    let mut args: Vec<String> = std::env::args().collect();
    // wrapper mode: drop argv[1] (the real rustc path)
    if args.len() > 1 && (args[1].ends_with("rustc") || args[1].contains("/rustc")) {
        args.remove(1);
    }
    let is_build_script = args.iter().any(|a| a == "build_script_build")
        || args.windows(2).any(|w| w[0] == "--crate-name" && w[1].starts_with("build_script"));
    let facts_dir = std::env::var("TEOS_FACTS_DIR").ok();
    if is_build_script || facts_dir.is_none() || args.iter().any(|a| a == "--print" || a.starts_with("--print=") || a == "-vV") {
        struct Nop;
        impl Callbacks for Nop {}
        rustc_driver::run_compiler(&args, &mut Nop);
        return;
    }
    rustc_driver::run_compiler(&args, &mut Facts);
}

impl Callbacks for Facts {
    fn after_expansion<'tcx>(
        &mut self,
        _compiler: &rustc_interface::interface::Compiler,
        tcx: TyCtxt<'tcx>,
    ) -> Compilation {
        dump(tcx);
        Compilation::Continue
    }
}

// ---------------------------------------------------------------------------------------------

fn loc(tcx: TyCtxt<'_>, span: Span) -> String {
    let sm = tcx.sess.source_map();
    // use the outermost call site so that macro-generated code points at the user's line
    let sp = span.source_callsite();
    let lo = sm.lookup_char_pos(sp.lo());
    let name = match &lo.file.name {
        rustc_span::FileName::Real(r) => {
            format!("{}", r.local_path().map(|p| p.display().to_string()).unwrap_or_else(|| "?".into()))
        }
        other => format!("{:?}", other),
    };
    format!("{}:{}", name, lo.line)
}

fn path(tcx: TyCtxt<'_>, did: DefId) -> String {
    with_resolve_crate_name!(with_no_trimmed_paths!(tcx.def_path_str(did)))
}

fn path_args<'tcx>(tcx: TyCtxt<'tcx>, did: DefId, args: GenericArgsRef<'tcx>) -> String {
    with_resolve_crate_name!(with_no_trimmed_paths!(tcx.def_path_str_with_args(did, args)))
}

fn ty_s(ty: Ty<'_>) -> String {
    with_resolve_crate_name!(with_no_trimmed_paths!(ty.to_string()))
}

const GUARD_ADTS: &[&str] = &[
    "std::sync::MutexGuard",
    "std::sync::RwLockReadGuard",
    "std::sync::RwLockWriteGuard",
    "std::sync::poison::mutex::MutexGuard",
    "std::sync::poison::MutexGuard",
    "std::sync::poison::rwlock::RwLockReadGuard",
    "std::sync::poison::rwlock::RwLockWriteGuard",
    "tokio::sync::MutexGuard",
    "tokio::sync::OwnedMutexGuard",
    "tokio::sync::RwLockReadGuard",
    "tokio::sync::RwLockWriteGuard",
];

/// Owned guards inside a type: descends through ADT arguments and tuples, not through references.
fn guards<'tcx>(tcx: TyCtxt<'tcx>, ty: Ty<'tcx>, out: &mut Vec<(String, String)>, depth: u32) {
    if depth > 6 {
        return;
    }
    match ty.kind() {
        ty::Adt(adt, args) => {
            let p = path(tcx, adt.did());
            if GUARD_ADTS.contains(&p.as_str()) || p.ends_with("MutexGuard") || p.ends_with("LockReadGuard") || p.ends_with("LockWriteGuard") {
                let t = args.types().next().map(ty_s).unwrap_or_default();
                out.push((p, t));
            } else {
                for t in args.types() {
                    guards(tcx, t, out, depth + 1);
                }
            }
        }
        ty::Tuple(ts) => {
            for t in ts.iter() {
                guards(tcx, t, out, depth + 1);
            }
        }
        _ => {}
    }
}

/// ADT def paths mentioned anywhere in a type (for type-argument rules).
fn adts_in<'tcx>(tcx: TyCtxt<'tcx>, ty: Ty<'tcx>, out: &mut Vec<String>) {
    for arg in ty.walk() {
        if let Some(t) = arg.as_type() {
            if let ty::Adt(adt, _) = t.kind() {
                let p = path(tcx, adt.did());
                if !out.contains(&p) {
                    out.push(p);
                }
            }
        }
    }
}

struct Cx<'a, 'tcx> {
    tcx: TyCtxt<'tcx>,
    body: &'a Body<'tcx>,
    def: LocalDefId,
    env: TypingEnv<'tcx>,
}

impl<'a, 'tcx> Cx<'a, 'tcx> {
    fn place(&self, p: &Place<'tcx>) -> J {
        let tcx = self.tcx;
        let mut v = vec![J::Int(p.local.as_u32() as i128)];
        let mut pty = mir::PlaceTy::from_ty(self.body.local_decls[p.local].ty);
        for elem in p.projection.iter() {
            let s = match elem {
                ProjectionElem::Deref => "*".to_string(),
                ProjectionElem::Field(f, _) => {
                    let name = match pty.ty.kind() {
                        ty::Adt(adt, _) => {
                            let vidx = pty.variant_index.unwrap_or(rustc_abi::FIRST_VARIANT);
                            if adt.is_enum() || adt.is_struct() || adt.is_union() {
                                adt.variants()
                                    .get(vidx)
                                    .and_then(|v| v.fields.get(f))
                                    .map(|fd| fd.name.to_string())
                            } else {
                                None
                            }
                        }
                        _ => None,
                    };
                    match name {
                        Some(n) => format!("f:{}", n),
                        None => format!("f:{}", f.as_u32()),
                    }
                }
                ProjectionElem::Index(l) => format!("i:{}", l.as_u32()),
                ProjectionElem::ConstantIndex { offset, from_end, .. } => {
                    format!("ci:{}{}", if from_end { "-" } else { "" }, offset)
                }
                ProjectionElem::Subslice { from, to, from_end } => {
                    format!("ss:{}:{}{}", from, if from_end { "-" } else { "" }, to)
                }
                ProjectionElem::Downcast(name, idx) => match name {
                    Some(n) => format!("v:{}", n),
                    None => format!("v:#{}", idx.as_u32()),
                },
                ProjectionElem::OpaqueCast(_) => "oc".to_string(),
                ProjectionElem::UnwrapUnsafeBinder(_) => "ub".to_string(),
            };
            v.push(J::Str(s));
            pty = pty.projection_ty(tcx, elem);
        }
        J::Arr(v)
    }

    fn konst(&self, c: &Const<'tcx>) -> J {
        let tcx = self.tcx;
        let ty = c.ty();
        let mut o: Vec<(&'static str, J)> = vec![("ty", J::s(ty_s(ty)))];
        if let ty::FnDef(did, args) = *ty.kind() {
            o.push(("fn", J::s(path(tcx, did))));
            o.push(("fninst", J::s(path_args(tcx, did, args))));
            return J::Obj(o);
        }
        if let Const::Unevaluated(u, _) = c {
            // a named constant (or a promoted / inline const)
            if u.promoted.is_none() {
                o.push(("def", J::s(path(tcx, u.def))));
            } else {
                o.push(("promoted", J::Bool(true)));
            }
        }
        let val: Option<ConstValue> = match c {
            Const::Val(v, _) => Some(*v),
            Const::Ty(_, tc) => match tc.kind() {
                ty::ConstKind::Value(cv) => Some(tcx.valtree_to_const_val(cv)),
                _ => None,
            },
            Const::Unevaluated(u, _) => {
                if u.promoted.is_some() {
                    None
                } else {
                    use rustc_middle::ty::TypeVisitableExt;
                    if u.args.has_non_region_param() {
                        None
                    } else {
                        tcx.const_eval_resolve(self.env, *u, rustc_span::DUMMY_SP).ok()
                    }
                }
            }
        };
        if let Some(v) = val {
            self.const_value(&mut o, v, ty);
        }
        J::Obj(o)
    }

    fn const_value(&self, o: &mut Vec<(&'static str, J)>, v: ConstValue, ty: Ty<'tcx>) {
        let tcx = self.tcx;
        match v {
            ConstValue::Scalar(rustc_middle::mir::interpret::Scalar::Ptr(ptr, _)) => {
                // &[u8; N] (e.g. the packed template of format_args!)
                if let ty::Ref(_, inner, _) = ty.kind() {
                    if let ty::Array(elem, len) = inner.kind() {
                        if matches!(elem.kind(), ty::Uint(ty::UintTy::U8)) {
                            if let Some(n) = len.try_to_target_usize(tcx) {
                                let (prov, off) = ptr.prov_and_relative_offset();
                                if let Some(rustc_middle::mir::interpret::GlobalAlloc::Memory(a)) = tcx.try_get_global_alloc(prov.alloc_id()) {
                                    let a = a.inner();
                                    let start = off.bytes() as usize;
                                    let end = start + n as usize;
                                    if end <= a.len() {
                                        let bytes = a.inspect_with_uninit_and_ptr_outside_interpreter(start..end);
                                        o.push(("bytes", J::s(String::from_utf8_lossy(bytes).to_string())));
                                    }
                                }
                            }
                        }
                    }
                }
            }
            ConstValue::Scalar(s) => {
                if let Ok(si) = s.try_to_scalar_int() {
                    let size = si.size();
                    let bits = si.to_bits(size);
                    match ty.kind() {
                        ty::Bool => o.push(("bool", J::Bool(bits != 0))),
                        ty::Int(_) => {
                            let v = size.sign_extend(bits);
                            o.push(("int", J::Int(v as i128)));
                        }
                        ty::Uint(_) => o.push(("int", J::Int(bits as i128))),
                        ty::Char => o.push(("int", J::Int(bits as i128))),
                        _ => o.push(("bits", J::Int(bits as i128))),
                    }
                }
            }
            ConstValue::ZeroSized => {
                o.push(("zst", J::Bool(true)));
            }
            ConstValue::Slice { .. } | ConstValue::Indirect { .. } => {
                let is_str_like = match ty.kind() {
                    ty::Ref(_, inner, _) => matches!(inner.kind(), ty::Str) || matches!(inner.kind(), ty::Slice(t) if matches!(t.kind(), ty::Uint(ty::UintTy::U8))),
                    _ => false,
                };
                if is_str_like {
                    if let Some(bytes) = v.try_get_slice_bytes_for_diagnostics(tcx) {
                        o.push(("str", J::s(String::from_utf8_lossy(bytes).to_string())));
                    }
                }
            }
        }
    }

    fn operand(&self, op: &Operand<'tcx>) -> J {
        match op {
            Operand::Copy(p) => J::Obj(vec![("c", self.place(p))]),
            Operand::Move(p) => J::Obj(vec![("m", self.place(p))]),
            Operand::Constant(c) => J::Obj(vec![("k", self.konst(&c.const_))]),
            Operand::RuntimeChecks(_) => J::Obj(vec![("rt", J::Bool(true))]),
        }
    }

    fn rvalue(&self, rv: &Rvalue<'tcx>) -> J {
        let tcx = self.tcx;
        match rv {
            Rvalue::Use(op, _) => J::Obj(vec![("k", J::s("use")), ("o", self.operand(op))]),
            Rvalue::Repeat(op, _) => J::Obj(vec![("k", J::s("repeat")), ("o", self.operand(op))]),
            Rvalue::Ref(_, bk, p) => J::Obj(vec![
                ("k", J::s("ref")),
                ("p", self.place(p)),
                ("mut", J::Bool(matches!(bk, mir::BorrowKind::Mut { .. }))),
            ]),
            Rvalue::ThreadLocalRef(d) => J::Obj(vec![("k", J::s("tls")), ("def", J::s(path(tcx, *d)))]),
            Rvalue::RawPtr(_, p) => J::Obj(vec![("k", J::s("rawptr")), ("p", self.place(p))]),
            Rvalue::Cast(ck, op, ty) => J::Obj(vec![
                ("k", J::s("cast")),
                ("ck", J::s(format!("{:?}", ck))),
                ("o", self.operand(op)),
                ("ty", J::s(ty_s(*ty))),
            ]),
            Rvalue::BinaryOp(bop, ops) => J::Obj(vec![
                ("k", J::s("bin")),
                ("op", J::s(format!("{:?}", bop))),
                ("a", self.operand(&ops.0)),
                ("b", self.operand(&ops.1)),
            ]),
            Rvalue::UnaryOp(uop, op) => J::Obj(vec![
                ("k", J::s("un")),
                ("op", J::s(format!("{:?}", uop))),
                ("a", self.operand(op)),
            ]),
            Rvalue::Discriminant(p) => {
                let mut o = vec![("k", J::s("discr")), ("p", self.place(p))];
                let pty = p.ty(&self.body.local_decls, tcx).ty;
                if let ty::Adt(adt, _) = pty.kind() {
                    o.push(("adt", J::s(path(tcx, adt.did()))));
                    if adt.is_enum() {
                        let mut vs = vec![];
                        for (vidx, v) in adt.variants().iter_enumerated() {
                            let d = adt.discriminant_for_variant(tcx, vidx);
                            vs.push(J::Arr(vec![J::Int(d.val as i128), J::s(v.name.to_string())]));
                        }
                        o.push(("variants", J::Arr(vs)));
                    }
                } else if pty.is_coroutine() {
                    o.push(("adt", J::s("<coroutine>")));
                }
                J::Obj(o)
            }
            Rvalue::Aggregate(kind, ops) => {
                let mut o: Vec<(&'static str, J)> = vec![("k", J::s("agg"))];
                match &**kind {
                    AggregateKind::Array(_) => o.push(("agg", J::s("array"))),
                    AggregateKind::Tuple => o.push(("agg", J::s("tuple"))),
                    AggregateKind::Adt(did, vidx, args, _, _) => {
                        o.push(("agg", J::s("adt")));
                        o.push(("adt", J::s(path(tcx, *did))));
                        o.push(("adtinst", J::s(path_args(tcx, *did, args))));
                        let adt = tcx.adt_def(*did);
                        let var = adt.variant(*vidx);
                        o.push(("variant", J::s(var.name.to_string())));
                        o.push((
                            "fields",
                            J::Arr(var.fields.iter().map(|f| J::s(f.name.to_string())).collect()),
                        ));
                    }
                    AggregateKind::Closure(did, _) => {
                        o.push(("agg", J::s("closure")));
                        o.push(("def", J::s(path(tcx, *did))));
                    }
                    AggregateKind::Coroutine(did, _) => {
                        o.push(("agg", J::s("coroutine")));
                        o.push(("def", J::s(path(tcx, *did))));
                    }
                    AggregateKind::CoroutineClosure(did, _) => {
                        o.push(("agg", J::s("coroutine_closure")));
                        o.push(("def", J::s(path(tcx, *did))));
                    }
                    AggregateKind::RawPtr(..) => o.push(("agg", J::s("rawptr"))),
                }
                o.push(("ops", J::Arr(ops.iter().map(|x| self.operand(x)).collect())));
                J::Obj(o)
            }
            Rvalue::CopyForDeref(p) => J::Obj(vec![("k", J::s("use")), ("o", J::Obj(vec![("c", self.place(p))]))]),
            Rvalue::WrapUnsafeBinder(op, _) => J::Obj(vec![("k", J::s("use")), ("o", self.operand(op))]),
        }
    }

    fn bb(b: BasicBlock) -> J {
        J::Int(b.as_u32() as i128)
    }
    fn unwind(u: &UnwindAction) -> J {
        match u {
            UnwindAction::Cleanup(b) => Self::bb(*b),
            _ => J::Null,
        }
    }

    fn callee(&self, func: &Operand<'tcx>, o: &mut Vec<(&'static str, J)>) {
        let tcx = self.tcx;
        if let Some((did, args)) = func.const_fn_def() {
            o.push(("callee", J::s(path(tcx, did))));
            o.push(("inst", J::s(path_args(tcx, did, args))));
            o.push(("targs", J::Arr(args.iter().map(|a| J::s(with_resolve_crate_name!(with_no_trimmed_paths!(a.to_string())))).collect())));
            let mut adts = vec![];
            for a in args.iter() {
                if let Some(t) = a.as_type() {
                    adts_in(tcx, t, &mut adts);
                }
            }
            o.push(("targ_adts", J::Arr(adts.into_iter().map(J::Str).collect())));
            if let Some(tr) = tcx.trait_of_assoc(did) {
                o.push(("trait", J::s(path(tcx, tr))));
            }
            // resolve trait methods to the impl when the receiver type is concrete
            let nargs = tcx.try_normalize_erasing_regions(self.env, ty::Unnormalized::new_wip(args)).unwrap_or(args);
            use rustc_middle::ty::TypeVisitableExt;
            if !nargs.has_infer() {
                if let Ok(Some(inst)) = ty::Instance::try_resolve(tcx, self.env, did, nargs) {
                    let rdid = inst.def_id();
                    o.push(("rcallee", J::s(path(tcx, rdid))));
                    o.push(("rinst", J::s(path_args(tcx, rdid, inst.args))));
                    o.push(("rkind", J::s(match inst.def {
                        ty::InstanceKind::Item(_) => "item",
                        ty::InstanceKind::Virtual(..) => "virtual",
                        ty::InstanceKind::ClosureOnceShim { .. } => "closure_once",
                        ty::InstanceKind::FnPtrShim(..) => "fnptr",
                        ty::InstanceKind::Intrinsic(_) => "intrinsic",
                        ty::InstanceKind::CloneShim(..) => "clone_shim",
                        ty::InstanceKind::DropGlue(..) => "drop_glue",
                        _ => "other",
                    })));
                }
            }
        } else {
            o.push(("indirect", self.operand(func)));
            let fty = func.ty(&self.body.local_decls, tcx);
            o.push(("fty", J::s(ty_s(fty))));
        }
    }

    fn terminator(&self, t: &mir::Terminator<'tcx>) -> J {
        let tcx = self.tcx;
        let mut o: Vec<(&'static str, J)> = vec![];
        match &t.kind {
            TerminatorKind::Goto { target } => {
                o.push(("k", J::s("goto")));
                o.push(("t", Self::bb(*target)));
            }
            TerminatorKind::SwitchInt { discr, targets } => {
                o.push(("k", J::s("switch")));
                o.push(("d", self.operand(discr)));
                o.push(("dty", J::s(ty_s(discr.ty(&self.body.local_decls, tcx)))));
                o.push((
                    "targets",
                    J::Arr(targets.iter().map(|(v, b)| J::Arr(vec![J::Int(v as i128), Self::bb(b)])).collect()),
                ));
                o.push(("otherwise", Self::bb(targets.otherwise())));
            }
            TerminatorKind::UnwindResume => o.push(("k", J::s("resume"))),
            TerminatorKind::UnwindTerminate(_) => o.push(("k", J::s("terminate"))),
            TerminatorKind::Return => o.push(("k", J::s("return"))),
            TerminatorKind::Unreachable => o.push(("k", J::s("unreachable"))),
            TerminatorKind::Drop { place, target, unwind, .. } => {
                o.push(("k", J::s("drop")));
                o.push(("p", self.place(place)));
                o.push(("t", Self::bb(*target)));
                o.push(("u", Self::unwind(unwind)));
            }
            TerminatorKind::Call { func, args, destination, target, unwind, fn_span, .. } => {
                o.push(("k", J::s("call")));
                self.callee(func, &mut o);
                o.push(("args", J::Arr(args.iter().map(|a| self.operand(&a.node)).collect())));
                o.push(("dest", self.place(destination)));
                o.push(("t", target.map(Self::bb).unwrap_or(J::Null)));
                o.push(("u", Self::unwind(unwind)));
                o.push(("fnline", J::s(loc(tcx, *fn_span))));
            }
            TerminatorKind::TailCall { func, args, .. } => {
                o.push(("k", J::s("tailcall")));
                self.callee(func, &mut o);
                o.push(("args", J::Arr(args.iter().map(|a| self.operand(&a.node)).collect())));
            }
            TerminatorKind::Assert { cond, expected, msg, target, unwind } => {
                o.push(("k", J::s("assert")));
                o.push(("cond", self.operand(cond)));
                o.push(("expected", J::Bool(*expected)));
                let kind = format!("{:?}", msg);
                let kind = kind.split('(').next().unwrap_or("").trim().to_string();
                o.push(("msg", J::s(kind)));
                o.push(("t", Self::bb(*target)));
                o.push(("u", Self::unwind(unwind)));
            }
            TerminatorKind::Yield { value, resume, resume_arg, drop } => {
                o.push(("k", J::s("yield")));
                o.push(("v", self.operand(value)));
                o.push(("t", Self::bb(*resume)));
                o.push(("resume_arg", self.place(resume_arg)));
                o.push(("drop", drop.map(Self::bb).unwrap_or(J::Null)));
            }
            TerminatorKind::CoroutineDrop => o.push(("k", J::s("coroutine_drop"))),
            TerminatorKind::FalseEdge { real_target, imaginary_target } => {
                o.push(("k", J::s("goto")));
                o.push(("t", Self::bb(*real_target)));
                o.push(("imaginary", Self::bb(*imaginary_target)));
            }
            TerminatorKind::FalseUnwind { real_target, .. } => {
                o.push(("k", J::s("goto")));
                o.push(("t", Self::bb(*real_target)));
                o.push(("false_unwind", J::Bool(true)));
            }
            TerminatorKind::InlineAsm { .. } => o.push(("k", J::s("asm"))),
        }
        o.push(("line", J::s(loc(tcx, t.source_info.span))));
        if t.source_info.span.from_expansion() {
            o.push(("x", J::Bool(true)));
        }
        J::Obj(o)
    }

    fn body_json(&self, stage: &'static str) -> J {
        let tcx = self.tcx;
        let body = self.body;
        let did = self.def.to_def_id();
        let mut o: Vec<(&'static str, J)> = vec![];
        o.push(("id", J::s(path(tcx, did))));
        let dk = tcx.def_kind(did);
        let kind = match dk {
            DefKind::Fn => "fn",
            DefKind::AssocFn => "method",
            DefKind::Closure => {
                if tcx.is_coroutine(did) {
                    "coroutine"
                } else {
                    "closure"
                }
            }
            _ => "other",
        };
        o.push(("kind", J::s(kind)));
        o.push(("stage", J::s(stage)));
        if matches!(dk, DefKind::Closure) {
            o.push(("parent", J::s(path(tcx, tcx.parent(did)))));
            // typeck root (the enclosing fn)
            o.push(("root", J::s(path(tcx, tcx.typeck_root_def_id(did)))));
        }
        if matches!(dk, DefKind::Fn | DefKind::AssocFn) {
            o.push(("vis", J::s(format!("{:?}", tcx.visibility(did)))));
            o.push(("is_async", J::Bool(tcx.asyncness(did).is_async())));
        }
        if matches!(dk, DefKind::AssocFn) {
            if let Some(imp) = tcx.impl_of_assoc(did) {
                o.push(("impl_ty", J::s(ty_s(tcx.type_of(imp).instantiate_identity().skip_norm_wip()))));
                if let Some(tr) = tcx.impl_opt_trait_ref(imp) {
                    let tr = tr.instantiate_identity().skip_norm_wip();
                    o.push(("impl_trait", J::s(path(tcx, tr.def_id))));
                }
            } else if let Some(tr) = tcx.trait_of_assoc(did) {
                o.push(("in_trait", J::s(path(tcx, tr))));
            }
        }
        o.push(("span", J::s(loc(tcx, body.span))));
        o.push(("argc", J::Int(body.arg_count as i128)));

        // locals
        let mut names: Vec<Option<String>> = vec![None; body.local_decls.len()];
        let mut dbg = vec![];
        for vdi in body.var_debug_info.iter() {
            if let VarDebugInfoContents::Place(p) = &vdi.value {
                if p.projection.is_empty() {
                    names[p.local.as_usize()] = Some(vdi.name.to_string());
                } else {
                    dbg.push(J::Obj(vec![("name", J::s(vdi.name.to_string())), ("p", self.place(p))]));
                }
            }
        }
        let mut locals = vec![];
        for (l, decl) in body.local_decls.iter_enumerated() {
            let mut lo: Vec<(&'static str, J)> = vec![("ty", J::s(ty_s(decl.ty)))];
            if let Some(n) = &names[l.as_usize()] {
                lo.push(("name", J::s(n.clone())));
            }
            let mut g = vec![];
            guards(tcx, decl.ty, &mut g, 0);
            if !g.is_empty() {
                lo.push(("g", J::Arr(g.into_iter().map(|(k, t)| J::Arr(vec![J::Str(k), J::Str(t)])).collect())));
            }
            if decl.is_user_variable() {
                lo.push(("user", J::Bool(true)));
            }
            locals.push(J::Obj(lo));
        }
        o.push(("locals", J::Arr(locals)));
        if !dbg.is_empty() {
            o.push(("upvars", J::Arr(dbg)));
        }

        // blocks
        let mut blocks = vec![];
        for (_bb, data) in body.basic_blocks.iter_enumerated() {
            let mut stmts = vec![];
            for st in data.statements.iter() {
                match &st.kind {
                    StatementKind::Assign(b) => {
                        let (p, rv) = &**b;
                        let mut so = vec![("k", J::s("assign")), ("d", self.place(p)), ("rv", self.rvalue(rv))];
                        so.push(("line", J::s(loc(tcx, st.source_info.span))));
                        if st.source_info.span.from_expansion() {
                            so.push(("x", J::Bool(true)));
                        }
                        stmts.push(J::Obj(so));
                    }
                    StatementKind::SetDiscriminant { place, variant_index } => {
                        stmts.push(J::Obj(vec![
                            ("k", J::s("setdiscr")),
                            ("d", self.place(place)),
                            ("v", J::Int(variant_index.as_u32() as i128)),
                        ]));
                    }
                    StatementKind::StorageDead(l) => {
                        stmts.push(J::Obj(vec![("k", J::s("dead")), ("l", J::Int(l.as_u32() as i128))]));
                    }
                    StatementKind::StorageLive(l) => {
                        stmts.push(J::Obj(vec![("k", J::s("live")), ("l", J::Int(l.as_u32() as i128))]));
                    }
                    _ => {}
                }
            }
            let mut bo: Vec<(&'static str, J)> = vec![("s", J::Arr(stmts))];
            if let Some(t) = &data.terminator {
                bo.push(("t", self.terminator(t)));
            }
            if data.is_cleanup {
                bo.push(("cleanup", J::Bool(true)));
            }
            blocks.push(J::Obj(bo));
        }
        o.push(("blocks", J::Arr(blocks)));
        J::Obj(o)
    }
}

fn dump(tcx: TyCtxt<'_>) {
    let crate_name = tcx.crate_name(rustc_hir::def_id::LOCAL_CRATE).to_string();
    let dir = std::env::var("TEOS_FACTS_DIR").expect("TEOS_FACTS_DIR");
    let crate_type = format!("{:?}", tcx.crate_types().first());

    // phase 1: clone every body at the mir_built stage before any other query can steal it
    let mut owned: Vec<(LocalDefId, Body<'_>, &'static str)> = vec![];
    for def in tcx.hir_body_owners() {
        let dk = tcx.def_kind(def);
        if !matches!(dk, DefKind::Fn | DefKind::AssocFn | DefKind::Closure) {
            continue;
        }
        let built = tcx.mir_built(def);
        if !built.is_stolen() {
            owned.push((def, built.borrow().clone(), "built"));
            continue;
        }
        let promoted = &tcx.mir_promoted(def).0;
        if !promoted.is_stolen() {
            owned.push((def, promoted.borrow().clone(), "promoted"));
            continue;
        }
        let elab = tcx.mir_drops_elaborated_and_const_checked(def);
        if !elab.is_stolen() {
            owned.push((def, elab.borrow().clone(), "elaborated"));
            continue;
        }
        owned.push((def, tcx.optimized_mir(def).clone(), "optimized"));
    }

    // phase 2: serialise
    let mut bodies = vec![];
    for (def, body, stage) in owned.iter() {
        let cx = Cx { tcx, body, def: *def, env: TypingEnv::post_analysis(tcx, def.to_def_id()) };
        bodies.push(cx.body_json(stage));
    }

    // ADTs, constants, impls
    let mut adts = vec![];
    let mut consts = vec![];
    for id in tcx.hir_free_items() {
        let did = id.owner_id.to_def_id();
        match tcx.def_kind(did) {
            DefKind::Struct | DefKind::Enum => {
                let adt = tcx.adt_def(did);
                let mut variants = vec![];
                for (vidx, v) in adt.variants().iter_enumerated() {
                    let mut fields = vec![];
                    for f in v.fields.iter() {
                        let mut doc = String::new();
                        let mut attrs = vec![];
                        for a in tcx.get_all_attrs(f.did) {
                            if let Some(d) = a.doc_str() {
                                doc.push_str(d.as_str());
                                doc.push('\n');
                            } else if let rustc_hir::Attribute::Unparsed(_) = a {
                                attrs.push(J::s(rustc_hir_pretty::attribute_to_string(&tcx, a)));
                            }
                        }
                        fields.push(J::Obj(vec![
                            ("name", J::s(f.name.to_string())),
                            ("ty", J::s(ty_s(tcx.type_of(f.did).instantiate_identity().skip_norm_wip()))),
                            ("vis", J::s(format!("{:?}", f.vis))),
                            ("doc", if doc.is_empty() { J::Null } else { J::s(doc) }),
                            ("attrs", if attrs.is_empty() { J::Null } else { J::Arr(attrs) }),
                        ]));
                    }
                    let mut vo = vec![("name", J::s(v.name.to_string())), ("fields", J::Arr(fields))];
                    if adt.is_enum() {
                        let d = adt.discriminant_for_variant(tcx, vidx);
                        vo.push(("discr", J::Int(d.val as i128)));
                    }
                    variants.push(J::Obj(vo));
                }
                let mut item_attrs = vec![];
                for a in tcx.get_all_attrs(did) {
                    if let rustc_hir::Attribute::Unparsed(_) = a {
                        item_attrs.push(J::s(rustc_hir_pretty::attribute_to_string(&tcx, a)));
                    }
                }
                adts.push(J::Obj(vec![
                    ("attrs", if item_attrs.is_empty() { J::Null } else { J::Arr(item_attrs) }),
                    ("path", J::s(path(tcx, did))),
                    ("kind", J::s(if adt.is_enum() { "enum" } else { "struct" })),
                    ("variants", J::Arr(variants)),
                    ("span", J::s(loc(tcx, tcx.def_span(did)))),
                ]));
            }
            DefKind::Const { .. } => {
                consts.push(const_item(tcx, did));
            }
            _ => {}
        }
    }
    // associated consts
    for id in tcx.hir_crate_items(()).impl_items() {
        let did = id.owner_id.to_def_id();
        if matches!(tcx.def_kind(did), DefKind::AssocConst { .. }) {
            consts.push(const_item(tcx, did));
        }
    }

    let out = J::Obj(vec![
        ("crate", J::s(crate_name.clone())),
        ("crate_type", J::s(crate_type)),
        ("rustc", J::s(option_env!("CFG_VERSION").unwrap_or("nightly"))),
        ("bodies", J::Arr(bodies)),
        ("adts", J::Arr(adts)),
        ("consts", J::Arr(consts)),
    ]);
    let mut s = String::with_capacity(1 << 24);
    out.write(&mut s);
    let file = format!("{}/{}.json", dir, crate_name);
    let tmp = format!("{}/.{}.{}.tmp", dir, crate_name, std::process::id());
    std::fs::write(&tmp, s).expect("write facts");
    std::fs::rename(&tmp, &file).expect("rename facts");
}

fn const_item(tcx: TyCtxt<'_>, did: DefId) -> J {
    let ty = tcx.type_of(did).instantiate_identity().skip_norm_wip();
    let mut o: Vec<(&'static str, J)> = vec![("path", J::s(path(tcx, did))), ("ty", J::s(ty_s(ty)))];
    use rustc_middle::ty::TypeVisitableExt;
    if !ty.has_non_region_param() && tcx.generics_of(did).count() == 0 {
        if let Ok(v) = tcx.const_eval_poly(did) {
            // reuse the scalar/str rendering
            let body_stub: Option<()> = None;
            let _ = body_stub;
            render_const(tcx, &mut o, v, ty);
        }
    }
    J::Obj(o)
}

fn render_const<'tcx>(tcx: TyCtxt<'tcx>, o: &mut Vec<(&'static str, J)>, v: ConstValue, ty: Ty<'tcx>) {
    match v {
        ConstValue::Scalar(s) => {
            if let Ok(si) = s.try_to_scalar_int() {
                let size = si.size();
                let bits = si.to_bits(size);
                match ty.kind() {
                    ty::Bool => o.push(("bool", J::Bool(bits != 0))),
                    ty::Int(_) => o.push(("int", J::Int(size.sign_extend(bits) as i128))),
                    ty::Uint(_) | ty::Char => o.push(("int", J::Int(bits as i128))),
                    _ => o.push(("bits", J::Int(bits as i128))),
                }
            }
        }
        ConstValue::ZeroSized => {}
        ConstValue::Indirect { alloc_id, offset } if matches!(ty.kind(), ty::Array(e, _) if matches!(e.kind(), ty::Ref(_, i, _) if matches!(i.kind(), ty::Str))) => {
            // [&str; N]: read the N fat pointers and the strings they point to
            if let ty::Array(_, len) = ty.kind() {
                if let Some(n) = len.try_to_target_usize(tcx) {
                    let a = tcx.global_alloc(alloc_id).unwrap_memory().inner();
                    let ps = tcx.data_layout.pointer_size();
                    let mut items = vec![];
                    for i in 0..n {
                        let off = offset + ps * (2 * i);
                        let p = a.read_scalar(&tcx, rustc_middle::mir::interpret::alloc_range(off, ps), true);
                        let l = a.read_scalar(&tcx, rustc_middle::mir::interpret::alloc_range(off + ps, ps), false);
                        if let (Ok(p), Ok(l)) = (p, l) {
                            if let (Ok(ptr), Ok(len)) = (p.to_pointer(&tcx).discard_err().ok_or(()), l.to_target_usize(&tcx).discard_err().ok_or(())) {
                                if let (Some(prov), o2) = ptr.into_raw_parts() {
                                    if let Some(rustc_middle::mir::interpret::GlobalAlloc::Memory(sa)) = tcx.try_get_global_alloc(prov.alloc_id()) {
                                        let sa = sa.inner();
                                        let st = o2.bytes() as usize;
                                        let en = st + len as usize;
                                        if en <= sa.len() {
                                            let bytes = sa.inspect_with_uninit_and_ptr_outside_interpreter(st..en);
                                            items.push(J::s(String::from_utf8_lossy(bytes).to_string()));
                                        }
                                    }
                                }
                            }
                        }
                    }
                    o.push(("strs", J::Arr(items)));
                }
            }
        }
        ConstValue::Slice { .. } | ConstValue::Indirect { .. } => {
            let is_str_like = match ty.kind() {
                ty::Ref(_, inner, _) => matches!(inner.kind(), ty::Str),
                _ => false,
            };
            if is_str_like {
                if let Some(bytes) = v.try_get_slice_bytes_for_diagnostics(tcx) {
                    o.push(("str", J::s(String::from_utf8_lossy(bytes).to_string())));
                }
            }
        }
    }
}
