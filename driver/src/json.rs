//! Minimal JSON value + serializer (the driver has zero Cargo dependencies).
use std::fmt::Write;

#[derive(Clone, Debug)]
pub enum J {
    Null,
    Bool(bool),
    Int(i128),
    Str(String),
    Arr(Vec<J>),
    Obj(Vec<(&'static str, J)>),
}

impl J {
    pub fn s<T: Into<String>>(t: T) -> J {
        J::Str(t.into())
    }
    pub fn opt_s(t: Option<String>) -> J {
        match t {
            Some(s) => J::Str(s),
            None => J::Null,
        }
    }
    pub fn write(&self, out: &mut String) {
        match self {
            J::Null => out.push_str("null"),
            J::Bool(b) => out.push_str(if *b { "true" } else { "false" }),
            J::Int(i) => {
                let _ = write!(out, "{}", i);
            }
            J::Str(s) => esc(s, out),
            J::Arr(v) => {
                out.push('[');
                for (i, x) in v.iter().enumerate() {
                    if i > 0 {
                        out.push(',');
                    }
                    x.write(out);
                }
                out.push(']');
            }
            J::Obj(v) => {
                out.push('{');
                let mut first = true;
                for (k, x) in v.iter() {
                    if matches!(x, J::Null) {
                        continue;
                    }
                    if !first {
                        out.push(',');
                    }
                    first = false;
                    esc(k, out);
                    out.push(':');
                    x.write(out);
                }
                out.push('}');
            }
        }
    }
}

fn esc(s: &str, out: &mut String) {
    out.push('"');
    for c in s.chars() {
        match c {
            '"' => out.push_str("\\\""),
            '\\' => out.push_str("\\\\"),
            '\n' => out.push_str("\\n"),
            '\r' => out.push_str("\\r"),
            '\t' => out.push_str("\\t"),
            c if (c as u32) < 0x20 => {
                let _ = write!(out, "\\u{:04x}", c as u32);
            }
            c => out.push(c),
        }
    }
    out.push('"');
}
